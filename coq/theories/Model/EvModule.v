(* Evaluator layer, modules: the default namespace of `@use` (Scope::do_use,
   UseAs::KeepName), the member filters of `@forward ... show/hide/as p-*`
   (ScopeRef::expose, Expose::allow_fun / allow_var, the UseAs::Prefix arm of
   do_use) and the `with (...)` configuration of Item::Use / Item::Forward in
   output/transform.rs. *)
From Coq Require Import String Ascii List ZArith Bool.
From RV Require Import Model.EvArgs.
Import ListNotations.
Local Open Scope string_scope.
Local Open Scope list_scope.

(* ---- name.rfind([':', '/']).map_or(name, |i| &name[i + 1..]).replace('_', "-"):
   the text after the last `:` or `/` (the whole text when there is none) ---- *)
Definition is_sep (c : ascii) : bool := Ascii.eqb c ":"%char || Ascii.eqb c "/"%char.
Fixpoint after_last_from (s : string) (acc : string) : string :=
  match s with
  | EmptyString => acc
  | String c r => if is_sep c then after_last_from r EmptyString
                  else after_last_from r (String.append acc (String c EmptyString))
  end.
Definition after_last_sep (s : string) : string := after_last_from s EmptyString.
(* since fix 18a59ef: strip_prefix('_'), then the first of ".scss" / ".sass" / ".css" that is a suffix *)
Definition strip_us (s : string) : string := match s with String "_"%char r => r | _ => s end.
Fixpoint strip_suffix (suf s : string) : option string :=
  if String.eqb s suf then Some EmptyString else
  match s with
  | EmptyString => None
  | String c r => match strip_suffix suf r with Some t => Some (String c t) | None => None end
  end.
Definition strip_ext (s : string) : string :=
  match strip_suffix ".scss" s with
  | Some t => t
  | None => match strip_suffix ".sass" s with
            | Some t => t
            | None => match strip_suffix ".css" s with Some t => t | None => s end
            end
  end.
Definition default_namespace (url : string) : string := disp (strip_ext (strip_us (after_last_sep url))).

(* ---- members of a module and what a user sees ---- *)
Record members := mkMem { m_vars : list (string * Z); m_funs : list string; m_mixins : list string }.

Inductive expose : Type :=
| EAll
| EShow (funs vars : list string)        (* functions and mixins share the first list *)
| EHide (funs vars : list string).

Definition mem (n : string) (l : list string) : bool := existsb (fun x => String.eqb (norm n) (norm x)) l.
Definition allow_fun (e : expose) (n : string) : bool :=
  match e with EAll => true | EShow f _ => mem n f | EHide f _ => negb (mem n f) end.
Definition allow_var (e : expose) (n : string) : bool :=
  match e with EAll => true | EShow _ v => mem n v | EHide _ v => negb (mem n v) end.

(* `@forward "lib" [as p-*] [show|hide ...]`: what reaches the forwarding module's users.
   Without prefix: ScopeRef::expose (functions and mixins by allow_fun, variables by allow_var).
   With a prefix: the UseAs::Prefix arm of do_use on the prefixed names (after fix 2f8ada8:
   functions and mixins by allow_fun, variables by allow_var). *)
Definition forward_view (m : members) (pfx : option string) (e : expose) : members :=
  match pfx with
  | None =>
      mkMem (filter (fun kv => allow_var e (fst kv)) (m_vars m))
            (filter (allow_fun e) (m_funs m))
            (filter (allow_fun e) (m_mixins m))
  | Some p =>
      mkMem (filter (fun kv => allow_var e (fst kv)) (map (fun kv => (String.append p (fst kv), snd kv)) (m_vars m)))
            (filter (allow_fun e) (map (String.append p) (m_funs m)))
            (filter (allow_fun e) (map (String.append p) (m_mixins m)))
  end.

(* ---- `with (...)`: the configured values are defined in the fresh module scope, then the
   module's declarations run over it (`!default` keeps a defined non-null value) ---- *)
Fixpoint env_get (e : list (string * Z)) (k : string) : option Z :=
  match e with
  | [] => None
  | (k', v) :: r => if String.eqb (norm k) (norm k') then Some v else env_get r k
  end.
Fixpoint env_set (e : list (string * Z)) (k : string) (v : Z) : list (string * Z) :=
  match e with
  | [] => [(k, v)]
  | (k', w) :: r => if String.eqb (norm k) (norm k') then (k', v) :: r else (k', w) :: env_set r k v
  end.

(* "The same variable may only be configured once." *)
Fixpoint define_config (cfg : list (string * Z)) (env : list (string * Z)) : option (list (string * Z)) :=
  match cfg with
  | [] => Some env
  | (k, v) :: r =>
      match env_get env k with
      | Some _ => None
      | None => define_config r (env_set env k v)
      end
  end.
Definition run_decl (env : list (string * Z)) (d : string * Z * bool) : list (string * Z) :=
  let '(k, v, dflt) := d in
  if dflt then match env_get env k with Some _ => env | None => env_set env k v end
  else env_set env k v.
Definition configure (decls : list (string * Z * bool)) (cfg : list (string * Z)) : option (list (string * Z)) :=
  match define_config cfg [] with
  | None => None
  | Some env => Some (fold_left run_decl decls env)
  end.

(* ---- a user module that forwards a built-in module (`@forward "sass:math" [as p-*] [show|hide ..]`),
   used as `@use "numbers"`.  Scope::set_variable refuses an assignment through a namespace when the
   module scope holds the internal variable `@scope_name@` (Scope::builtin_module defines it).  That
   variable travels like any other variable: expose_star copies it, ScopeRef::expose filters it with
   allow_var, the Prefix arm renames it.  So the guard survives a plain or `hide` forward, and is lost
   with `show` or a prefix; when it survives it also blocks the user module's own variables.
   `@use "numbers" with ($pi: 3)` predefines an own variable of the user module, which wins over the
   forwarded one in with_forwarded (expose_star(forwarded) then expose_star(self)). ---- *)
Definition marker_name : string := "@scope_name@".
Definition marker_survives (pfx : option string) (e : expose) : bool :=
  match pfx with Some _ => false | None => allow_var e marker_name end.

Inductive fb_action : Type :=
| FAssignBuiltin      (* numbers.$<p>pi: 3;  a { x: numbers.$<p>pi } *)
| FAssignOwn          (* numbers.$own: 3;    a { x: numbers.$own }   ($own: 1 !default in the user module) *)
| FConfigBuiltin      (* @use "numbers" with ($<p>pi: 3);  a { x: numbers.$<p>pi } *)
| FReadBuiltin        (* a { x: numbers.$<p>pi } *)
| FConfigOwn.         (* @use "numbers" with ($own: 3);  a { x: numbers.$own } *)

Inductive fb_res : Type := FOk (v : Z) | FErr.      (* v = 0 stands for the value of math.$pi *)

Definition pfx_name (pfx : option string) (n : string) : string :=
  match pfx with None => n | Some p => String.append p n end.

Definition fwd_builtin (a : fb_action) (pfx : option string) (e : expose) : fb_res :=
  let visible := allow_var e (pfx_name pfx "pi") in
  match a with
  | FAssignBuiltin => if visible then (if marker_survives pfx e then FErr else FOk 3) else FErr
  | FAssignOwn => if marker_survives pfx e then FErr else FOk 3
  | FConfigBuiltin => FOk 3
  | FReadBuiltin => if visible then FOk 0 else FErr
  | FConfigOwn => FOk 3
  end.

(* ---- built-in modules: get_global_module + `with` non-empty = Invalid::ConfigBuiltin;
   assignment through a module that has @scope_name@ = ScopeError::ModifiedBuiltin ---- *)
Definition builtin_configure (with_nonempty : bool) : bool := negb with_nonempty.   (* true = ok *)
Definition builtin_assign : bool := false.
