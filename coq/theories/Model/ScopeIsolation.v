(* C05, built-in module scopes are never written: a transition system over scope ids.

   rsass/src/variablescope.rs:  enum ScopeRef { Builtin(&'static Scope), Dynamic(Arc<Scope>) };  every Scope has
   Mutex-protected maps (modules, variables, mixins, functions), a forward slot and an optional parent.  The built-in
   module scopes are process-wide (static MODULES); a write to one of them would leak into every later compilation.

   Model.  A reference is B n (built-in module n) or D i (i-th dynamic scope of the state).  Of a scope only what
   decides WHERE writes go is kept: parent, modules (name -> ref), forward slot, and whether it carries the
   `@scope_name@` variable (`marked`; Scope::builtin_module defines it, expose_star / `as *` copy it).
   The METHODS of Scope (m_* below) take an arbitrary ref as receiver, exactly like the Rust methods take &Scope of
   either kind, and return the list of refs they wrote to.  The OPERATIONS are what the evaluator does at the call
   sites listed in `reviewed_call_sites`: there the receiver is a handle of the scope being executed, created by
   ScopeRef::new_global / ScopeRef::sub (class RCur), a scope created in the same function (RFresh), the forward
   slot of the current scope (RForwardSlot), or - inside a Scope method - self / parent / a module found through
   get_module behind the `@scope_name@` test (RSelf / RParent / RGuardedModule).  Built-in refs enter only as the
   MODULE ARGUMENT of @use / @forward (get_global_module, RSource).

   Proved (Proofs/C05Scopes.v): for every sequence of operations, from every state whose parents and forward slots
   are dynamic, no method ever writes to a B ref.  NOT proved: that the Rust evaluator passes only such handles at
   the RCur sites (that is a data-flow property of the whole evaluator; each site was reviewed by reading and the
   table of sites is pinned, so a new call site re-opens the review). *)
From Coq Require Import String List Bool Arith.
From RV Require Import Gen.Statics.
Import ListNotations.
Local Open Scope string_scope.
Local Open Scope list_scope.

Inductive ref : Type := B (n : nat) | D (i : nat).
Definition is_dyn (r : ref) : bool := match r with D _ => true | B _ => false end.

Record scope := mkScope {
  s_parent : option ref;
  s_modules : list (string * ref);
  s_forward : option ref;
  s_marked : bool }.

Definition empty_scope : scope := mkScope None [] None false.
(* a built-in module: no parent, uses / forwards nothing, carries the marker (Scope::builtin_module) *)
Definition builtin_scope : scope := mkScope None [] None true.

Definition state : Type := list scope.
Definition get (st : state) (r : ref) : scope :=
  match r with B _ => builtin_scope | D i => nth i st empty_scope end.

Fixpoint update (st : state) (i : nat) (f : scope -> scope) : state :=
  match st, i with
  | [], _ => []
  | s :: r, O => f s :: r
  | s :: r, S j => s :: update r j f
  end.
(* writing through a ref: a built-in scope is shared static memory, the model only records the write *)
Definition upd (st : state) (r : ref) (f : scope -> scope) : state :=
  match r with D i => update st i f | B _ => st end.

Definition fresh (st : state) (s : scope) : state * ref := (st ++ [s], D (length st)).

Fixpoint assoc (k : string) (l : list (string * ref)) : option ref :=
  match l with [] => None | (k', v) :: r => if String.eqb k k' then Some v else assoc k r end.

(* ---- methods (receiver = any ref); result: new state, refs written ---- *)

(* define_global: walk to the parent-less ancestor *)
Fixpoint root (st : state) (fuel : nat) (r : ref) : ref :=
  match fuel with
  | O => r
  | S f => match s_parent (get st r) with Some p => root st f p | None => r end
  end.
Definition m_define_global (st : state) (r : ref) : state * list ref := (st, [root st (S (length st)) r]).

(* get_module: own modules, then the parents' *)
Fixpoint get_module (st : state) (fuel : nat) (r : ref) (name : string) : option ref :=
  match assoc name (s_modules (get st r)) with
  | Some m => Some m
  | None => match fuel with
            | O => None
            | S f => match s_parent (get st r) with Some p => get_module st f p name | None => None end
            end
  end.

(* set_variable(name, val, default, global); qual = Some m for `m.$name`.
   The module-qualified form recurses once with the unqualified name. *)
Definition m_set_variable_plain (st : state) (r : ref) (global : bool) : state * list ref :=
  if global then m_define_global st r else (st, [r]).
Definition m_set_variable (st : state) (r : ref) (qual : option string) (global : bool) : state * list ref :=
  match qual with
  | None => m_set_variable_plain st r global
  | Some m =>
      match get_module st (S (length st)) r m with
      | None => (st, [])                                            (* NoModule *)
      | Some mr => if s_marked (get st mr) then (st, [])            (* ModifiedBuiltin *)
                   else m_set_variable_plain st mr global
      end
  end.
Definition m_define (st : state) (r : ref) : state * list ref := m_set_variable st r None false.

Definition m_define_module (st : state) (r : ref) (name : string) (m : ref) : state * list ref :=
  (upd st r (fun s => mkScope (s_parent s) ((name, m) :: s_modules s) (s_forward s) (s_marked s)), [r]).

(* expose_star(self, other): copies functions, variables (the marker with them) and mixins into self *)
Definition m_expose_star (st : state) (r other : ref) : state * list ref :=
  (upd st r (fun s => mkScope (s_parent s) (s_modules s) (s_forward s) (s_marked s || s_marked (get st other))), [r]).

(* forward(): get_or_insert_with(new_global) on the forward slot *)
Definition m_forward (st : state) (r : ref) : state * ref * list ref :=
  match s_forward (get st r) with
  | Some f => (st, f, [])
  | None => let '(st1, f) := fresh st empty_scope in
            (upd st1 r (fun s => mkScope (s_parent s) (s_modules s) (Some f) (s_marked s)), f, [r])
  end.

(* ScopeRef::with_forwarded(module): a merged fresh scope when the module forwards something, else the module itself *)
Definition with_forwarded (st : state) (m : ref) : state * ref * list ref :=
  match s_forward (get st m) with
  | Some f =>
      let '(st1, merged) := fresh st empty_scope in
      let '(st2, w1) := m_expose_star st1 merged f in
      let '(st3, w2) := m_expose_star st2 merged m in
      (st3, merged, w1 ++ w2)
  | None => (st, m, [])
  end.
(* ScopeRef::expose(module, filter): the module itself for Expose::All, else a filtered fresh copy *)
Definition expose (st : state) (m : ref) (all : bool) : state * ref * list ref :=
  if all then (st, m, [])
  else let '(st1, res) := fresh st (mkScope None [] None (s_marked (get st m))) in (st1, res, [res; res; res]).

Inductive use_as := AsName (n : string) | AsStar | AsPrefix.

(* do_use(self, module, name, as_n, expose) *)
Definition m_do_use (st : state) (r m : ref) (a : use_as) (all : bool) : state * list ref :=
  let '(st1, m1, w1) := with_forwarded st m in
  match a with
  | AsName n => let '(st2, m2, w2) := expose st1 m1 all in
                let '(st3, w3) := m_define_module st2 r n m2 in (st3, w1 ++ w2 ++ w3)
  | AsStar => let '(st2, m2, w2) := expose st1 m1 all in
              let '(st3, w3) := m_expose_star st2 r m2 in (st3, w1 ++ w2 ++ w3)
  | AsPrefix => (st1, w1 ++ [r; r; r])           (* define_function / define / define_mixin on self *)
  end.

(* ---- operations of the evaluator; `c` is a handle of a dynamic scope ---- *)
Inductive msrc := SrcBuiltin (n : nat) | SrcFile (i : nat).     (* get_global_module(url) | the scope of a loaded file *)
Definition ref_of_src (s : msrc) : ref := match s with SrcBuiltin n => B n | SrcFile i => D i end.

Inductive op : Type :=
| ONewGlobal                                         (* ScopeRef::new_global *)
| OSub (c : nat)                                     (* ScopeRef::sub / sub_selectors (parent = current scope) *)
| OLocalWrite (c : nat)                              (* define_function / define_mixin / define_content / restore_local_values /
                                                        define / define_multi on the current scope *)
| OSetVariable (c : nat) (qual : option string) (global : bool)     (* VariableDeclaration::evaluate *)
| OUse (c : nat) (m : msrc) (a : use_as) (with_cfg : bool)          (* @use, @import of a scss file (AsStar) *)
| OForward (c : nat) (m : msrc) (a : use_as) (all with_cfg : bool)  (* @forward *)
| OLoadCss (c : nat).                                (* meta.load-css: a sub scope, configured, then evaluated *)

Definition step (o : op) (st : state) : state * list ref :=
  match o with
  | ONewGlobal => (fst (fresh st empty_scope), [])
  | OSub c => (fst (fresh st (mkScope (Some (D c)) [] None false)), [])
  | OLocalWrite c => m_define st (D c)
  | OSetVariable c q g => m_set_variable st (D c) q g
  | OUse c m a cfg =>
      match m with
      | SrcBuiltin _ => if cfg then (st, [])                        (* Invalid::ConfigBuiltin, before any write *)
                        else m_do_use st (D c) (ref_of_src m) a true
      | SrcFile i =>
          (* the module scope was created by new_global in the loader closure; `with` variables are defined in it *)
          let '(st1, w1) := if cfg then m_define st (D i) else (st, []) in
          let '(st2, w2) := m_do_use st1 (D c) (D i) a true in (st2, w1 ++ w2)
      end
  | OForward c m a all cfg =>
      match m with
      | SrcBuiltin _ => if cfg then (st, [])
                        else let '(st1, f, w1) := m_forward st (D c) in
                             let '(st2, w2) := m_do_use st1 f (ref_of_src m) a all in (st2, w1 ++ w2)
      | SrcFile i =>
          let '(st0, w0) := if cfg then m_define st (D i) else (st, []) in
          let '(st1, f, w1) := m_forward st0 (D c) in
          let '(st2, w2) := m_do_use st1 f (D i) a all in (st2, w0 ++ w1 ++ w2)
      end
  | OLoadCss c =>
      let '(st1, s) := fresh st (mkScope (Some (D c)) [] None false) in
      let '(st2, w) := m_define st1 s in (st2, w)
  end.

Fixpoint run (ops : list op) (st : state) : state * list ref :=
  match ops with
  | [] => (st, [])
  | o :: r => let '(st1, w1) := step o st in let '(st2, w2) := run r st1 in (st2, w1 ++ w2)
  end.

(* the invariant: parents and forward slots are dynamic scopes *)
Definition opt_dyn (o : option ref) : bool := match o with Some r => is_dyn r | None => true end.
Definition scope_ok (s : scope) : bool := opt_dyn (s_parent s) && opt_dyn (s_forward s).
Definition inv (st : state) : Prop := forall s, In s st -> scope_ok s = true.

(* ---- the reviewed table of call sites (Gen/Statics.v scope_call_sites) with the class of each receiver ---- *)
Inductive rclass :=
| RCur            (* a handle of the scope being executed / of a mixin or argument scope: from new_global / sub *)
| RFresh          (* created in the same function by new_global / sub / builtin_module (before MODULES is published) *)
| RForwardSlot    (* scope.forward() of the current scope *)
| RSelf           (* self inside a Scope / ScopeRef method: covered by the method's own receiver *)
| RParent         (* the parent of self (define_global) *)
| RGuardedModule  (* a module from get_module, used only when it does not carry @scope_name@ *)
| RSource         (* where built-in refs come from: get_global_module, ScopeRef::Builtin(..) as a value *)
| RPattern.       (* ScopeRef::Builtin in a match pattern *)

Definition csite : Type := (string * (string * (string * (string * nat))))%type.

Definition reviewed_call_sites : list (csite * rclass) :=
  [(("output/transform.rs", ("handle_item", ("get_global_module", ("", 1)))), RSource);
   (("output/transform.rs", ("handle_item", ("define", ("module", 1)))), RFresh);
   (("output/transform.rs", ("handle_item", ("do_use", ("scope", 1)))), RCur);
   (("output/transform.rs", ("handle_item", ("get_global_module", ("", 2)))), RSource);
   (("output/transform.rs", ("handle_item", ("define", ("module", 2)))), RFresh);
   (("output/transform.rs", ("handle_item", ("forward", ("scope", 1)))), RCur);
   (("output/transform.rs", ("handle_item", ("do_use", ("scope . forward ( )", 1)))), RForwardSlot);
   (("output/transform.rs", ("handle_item", ("do_use", ("scope", 2)))), RCur);
   (("output/transform.rs", ("handle_item", ("define_function", ("scope", 1)))), RCur);
   (("output/transform.rs", ("handle_item", ("define_mixin", ("scope", 1)))), RCur);
   (("output/transform.rs", ("handle_item", ("define_content", ("mixin", 1)))), RCur);
   (("output/transform.rs", ("handle_item", ("define_multi", ("scope", 1)))), RCur);
   (("output/transform.rs", ("handle_item", ("restore_local_values", ("scope", 1)))), RCur);
   (("output/transform.rs", ("handle_item", ("define", ("scope", 1)))), RCur);
   (("sass/formal_args.rs", ("eval", ("define", ("argscope", 1)))), RCur);
   (("sass/formal_args.rs", ("eval", ("define", ("argscope", 2)))), RCur);
   (("sass/formal_args.rs", ("eval", ("define", ("argscope", 3)))), RCur);
   (("sass/formal_args.rs", ("eval", ("define", ("argscope", 4)))), RCur);
   (("sass/functions/map.rs", ("create_module", ("expose_star", ("f", 1)))), RFresh);
   (("sass/functions/math.rs", ("create_module", ("define", ("f", 1)))), RFresh);
   (("sass/functions/math.rs", ("create_module", ("define", ("f", 2)))), RFresh);
   (("sass/functions/math.rs", ("create_module", ("define", ("f", 3)))), RFresh);
   (("sass/functions/math.rs", ("create_module", ("define", ("f", 4)))), RFresh);
   (("sass/functions/math.rs", ("create_module", ("define", ("f", 5)))), RFresh);
   (("sass/functions/math.rs", ("create_module", ("define", ("f", 6)))), RFresh);
   (("sass/functions/math.rs", ("create_module", ("define", ("f", 7)))), RFresh);
   (("sass/functions/meta.rs", ("create_module", ("define_mixin", ("f", 1)))), RFresh);
   (("sass/functions/mod.rs", ("builtin_fn", ("define_function", ("self", 1)))), RFresh);
   (("sass/functions/mod.rs", ("get_global_module", ("ScopeRef::Builtin", ("value", 1)))), RSource);
   (("sass/mixin.rs", ("get", ("define", ("scope", 1)))), RFresh);
   (("sass/mixin.rs", ("define_content", ("define_content", ("self . scope", 1)))), RCur);
   (("sass/variabledeclaration.rs", ("evaluate", ("set_variable", ("scope", 1)))), RCur);
   (("variablescope.rs", ("is_same", ("ScopeRef::Builtin", ("pattern", 1)))), RPattern);
   (("variablescope.rs", ("is_same", ("ScopeRef::Builtin", ("pattern", 2)))), RPattern);
   (("variablescope.rs", ("eval_body", ("define_multi", ("s", 1)))), RCur);
   (("variablescope.rs", ("eval_body", ("define", ("s", 1)))), RCur);
   (("variablescope.rs", ("with_forwarded", ("expose_star", ("merged", 1)))), RFresh);
   (("variablescope.rs", ("with_forwarded", ("expose_star", ("merged", 2)))), RFresh);
   (("variablescope.rs", ("expose", ("define_function", ("result", 1)))), RFresh);
   (("variablescope.rs", ("expose", ("define_mixin", ("result", 1)))), RFresh);
   (("variablescope.rs", ("expose", ("define", ("result", 1)))), RFresh);
   (("variablescope.rs", ("deref", ("ScopeRef::Builtin", ("pattern", 1)))), RPattern);
   (("variablescope.rs", ("builtin_module", ("define", ("s", 1)))), RFresh);
   (("variablescope.rs", ("define", ("set_variable", ("self", 1)))), RSelf);
   (("variablescope.rs", ("set_variable", ("set_variable", ("module", 1)))), RGuardedModule);
   (("variablescope.rs", ("set_variable", ("define_global", ("self", 1)))), RSelf);
   (("variablescope.rs", ("define_global", ("define_global", ("parent", 1)))), RParent);
   (("variablescope.rs", ("define_multi", ("define", ("self", 1)))), RSelf);
   (("variablescope.rs", ("define_multi", ("define", ("self", 2)))), RSelf);
   (("variablescope.rs", ("do_use", ("define_module", ("self", 1)))), RSelf);
   (("variablescope.rs", ("do_use", ("expose_star", ("self", 1)))), RSelf);
   (("variablescope.rs", ("do_use", ("define_module", ("self", 2)))), RSelf);
   (("variablescope.rs", ("do_use", ("define_function", ("self", 1)))), RSelf);
   (("variablescope.rs", ("do_use", ("define", ("self", 1)))), RSelf);
   (("variablescope.rs", ("do_use", ("define_mixin", ("self", 1)))), RSelf);
   (("variablescope.rs", ("expose_star", ("define_function", ("self", 1)))), RSelf);
   (("variablescope.rs", ("expose_star", ("define", ("self", 1)))), RSelf);
   (("variablescope.rs", ("expose_star", ("define_mixin", ("self", 1)))), RSelf)].

(* which receiver text may carry which class: a site whose receiver is not `self` cannot be RSelf, a built-in ref is
   created at exactly one place, etc. *)
Definition class_admissible (e : csite * rclass) : bool :=
  let meth := fst (snd (snd (fst e))) in
  let recv := fst (snd (snd (snd (fst e)))) in
  match snd e with
  | RSelf => String.eqb recv "self"
  | RParent => String.eqb recv "parent" && String.eqb meth "define_global"
  | RGuardedModule => String.eqb recv "module" && String.eqb meth "set_variable" && String.eqb (fst (snd (fst e))) "set_variable"
  | RForwardSlot => String.eqb recv "scope . forward ( )"
  | RSource => String.eqb meth "get_global_module" || (String.eqb meth "ScopeRef::Builtin" && String.eqb recv "value")
  | RPattern => String.eqb meth "ScopeRef::Builtin" && String.eqb recv "pattern"
  | RCur | RFresh => negb (String.eqb recv "self" && negb (String.eqb (fst (snd (fst e))) "builtin_fn")) && negb (String.eqb recv "module" && String.eqb (fst (snd (fst e))) "set_variable")
                     && negb (String.eqb meth "get_global_module") && negb (String.eqb meth "ScopeRef::Builtin")
  end.
