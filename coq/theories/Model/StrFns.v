(* sass/functions/string.rs on code-point strings (`list N`): length, index,
   insert, slice, to-upper-case, to-lower-case.  Indices are the i64 the function
   receives; usize arithmetic is modelled on nat (saturating_sub = nat minus). *)
From Coq Require Import String List NArith ZArith Bool.
From RV Require Import Base.Text Base.ListX Model.CssStr.
Import ListNotations.
Local Open Scope list_scope.
Local Open Scope Z_scope.

Definition str_length (s : list N) : Z := Z.of_nat (length s).

Fixpoint prefix_eqb (p l : list N) : bool :=
  match p, l with
  | [], _ => true
  | x :: p', y :: l' => N.eqb x y && prefix_eqb p' l'
  | _ :: _, [] => false
  end.

(* str::find on valid UTF-8 = first code-point offset at which `sub` is a prefix *)
Fixpoint find_sub (sub l : list N) (i : nat) : option nat :=
  match l with
  | [] => if prefix_eqb sub [] then Some i else None
  | _ :: r => if prefix_eqb sub l then Some i else find_sub sub r (S i)
  end.

(* index: null (None) or 1 + number of chars before the match *)
Definition str_index (s sub : list N) : option Z :=
  option_map (fun i => 1 + Z.of_nat i) (find_sub sub s O).

(* insert *)
Definition insert_ix (index : Z) (len : nat) : nat :=
  if index <? 0 then (len - (Z.to_nat (- index) - 1))%nat
  else (Z.to_nat index - 1)%nat.
Definition str_insert (s ins : list N) (index : Z) : list N :=
  let ix := insert_ix index (length s) in
  firstn ix s ++ ins ++ skipn ix s.

(* slice *)
Definition slice_start (i : Z) (len : nat) : nat :=
  if i <? 0 then (len - Z.to_nat (- i))%nat
  else if 0 <? i then Nat.min (Z.to_nat i - 1) len
  else O.
Definition slice_end (j : Z) (len : nat) : nat :=
  if j <? 0 then (len - (Z.to_nat (- j) - 1))%nat else Z.to_nat j.
(* None = the "Bad indexes" error *)
Definition str_slice (s : list N) (i j : Z) : option (list N) :=
  let st := slice_start i (length s) in
  let en := slice_end j (length s) in
  if (st <=? en)%nat then Some (firstn (en - st) (skipn st s)) else None.

Definition str_upper (s : list N) : list N := map to_ascii_upper s.
Definition str_lower (s : list N) : list N := map to_ascii_lower s.

(* results go through From<CssString> for Value, i.e. pref_dquotes *)
Definition str_result (v : list N) (q : quotes) : cssstring := pref_dquotes (mkStr v q).
