(* sass/functions/string.rs on code-point strings (`list N`): length, index,
   insert, slice, to-upper-case, to-lower-case.  Indices are the i64 the function
   receives; usize arithmetic is modelled on nat (saturating_sub = nat minus). *)
From Coq Require Import String List NArith ZArith Bool.
From RV Require Import Base.Text Base.ListX Model.CssStr.
Import ListNotations.
Local Open Scope list_scope.
Local Open Scope Z_scope.

Definition str_length (s : list N) : Z := Z.of_nat (length s).

Fixpoint prefix_eqb (p l : list N) : bool :=
  match p, l with
  | [], _ => true
  | x :: p', y :: l' => N.eqb x y && prefix_eqb p' l'
  | _ :: _, [] => false
  end.

(* str::find on valid UTF-8 = first code-point offset at which `sub` is a prefix *)
Fixpoint find_sub (sub l : list N) (i : nat) : option nat :=
  match l with
  | [] => if prefix_eqb sub [] then Some i else None
  | _ :: r => if prefix_eqb sub l then Some i else find_sub sub r (S i)
  end.

(* index: null (None) or 1 + number of chars before the match *)
Definition str_index (s sub : list N) : option Z :=
  option_map (fun i => 1 + Z.of_nat i) (find_sub sub s O).

(* insert; usize values are kept in Z (they can be as large as 2^63), saturating_sub = max 0 *)
Definition insert_ix (index : Z) (len : Z) : Z :=
  if index <? 0 then Z.max 0 (len - (- index - 1))
  else Z.max 0 (index - 1).
(* s.by_ref().take(index) ++ insert ++ rest: take stops at the end of the string *)
Definition str_insert (s ins : list N) (index : Z) : list N :=
  let len := Z.of_nat (length s) in
  let ix := Z.to_nat (Z.min (insert_ix index len) len) in
  firstn ix s ++ ins ++ skipn ix s.

(* slice *)
Definition slice_start (i : Z) (len : Z) : Z :=
  if i <? 0 then Z.max 0 (len - (- i))
  else if 0 <? i then Z.min (i - 1) len
  else 0.
Definition slice_end (j : Z) (len : Z) : Z :=
  if j <? 0 then Z.max 0 (len - (- j - 1)) else j.
(* skip(start).take(end.saturating_sub(start)): an empty range gives the empty string *)
Definition str_slice (s : list N) (i j : Z) : list N :=
  let len := Z.of_nat (length s) in
  let st := slice_start i len in
  let en := slice_end j len in
  firstn (Z.to_nat (Z.min (Z.max 0 (en - st)) len)) (skipn (Z.to_nat st) s).

Definition str_upper (s : list N) : list N := map to_ascii_upper s.
Definition str_lower (s : list N) : list N := map to_ascii_lower s.

(* results go through From<CssString> for Value, i.e. pref_dquotes *)
Definition str_result (v : list N) (q : quotes) : cssstring := pref_dquotes (mkStr v q).
