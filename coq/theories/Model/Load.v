(* Model of stylesheet loading in rsass (shared by C02, C03, C04, C39).

   Mirrors, bugs included:
   - input/context.rs   Context::find_file, do_find_file, relative, lock_loading, unlock_loading
   - input/fsloader.rs  FsLoader::find_file (load paths searched in order)
   - output/cssdata.rs  CssData::load_module (cache keyed by the textual path)
   - output/transform.rs Item::Use / Item::Forward / Item::Import, sass/mixin.rs MixinDecl::LoadCss
     (positions of the unlock calls, the fresh CssData of an @import, the plain-css fallback)
   - state of /repo after the fix commits 3dfdada (unchanged-url fallback), d80c9be (fn normalize) and
     2454c18 (load-css keeps the file locked while its body is evaluated)

   The candidate rules, the direct suffixes and the plain-css condition come from Gen/Candidates.v,
   which is regenerated from the Rust source on every check. *)
From Coq Require Import String List Bool Arith Ascii NArith.
From RV Require Import Gen.Candidates.
Import ListNotations.
Local Open Scope string_scope.

(* ---------- strings ---------- *)

Fixpoint ends_with (s suf : string) : bool :=
  if String.eqb s suf then true
  else match s with EmptyString => false | String _ r => ends_with r suf end.

Definition starts_with (s pre : string) : bool := String.prefix pre s.

(* url.rfind('/').map_or(("", url), |p| url.split_at(p + 1)) *)
Fixpoint split_dir (s : string) : string * string :=
  match s with
  | EmptyString => (EmptyString, EmptyString)
  | String c r =>
      let (b, n) := split_dir r in
      if String.eqb b "" then
        (if Ascii.eqb c "/"%char then (String c EmptyString, n) else (EmptyString, String c n))
      else (String c b, n)
  end.

Fixpoint mem (x : string) (l : list string) : bool :=
  match l with [] => false | y :: r => String.eqb x y || mem x r end.

Fixpoint remove1 (x : string) (l : list string) : list string :=
  match l with [] => [] | y :: r => if String.eqb x y then remove1 x r else y :: remove1 x r end.

(* ---------- candidate expansion (Context::find_file / do_find_file) ---------- *)

Inductive kind : Type := KImport | KUse | KForward | KLoadCss.

Definition is_import (k : kind) : bool := match k with KImport => true | _ => false end.

Definition piece_text (base name : string) (p : piece) : string :=
  match p with PBase => base | PName => name | PLit s => s end.

Definition expand (base name : string) (c : list piece) : string :=
  fold_right (fun p acc => piece_text base name p ++ acc) "" c.

Definition cands (k : kind) : list (list piece) :=
  if is_import k then import_candidates else use_candidates.

Definition is_direct (url : string) : bool := existsb (ends_with url) direct_suffixes.

(* the names do_find_file asks the loader for, in order *)
Definition probe_names (url : string) (cs : list (list piece)) : list string :=
  if is_direct url then [url]
  else let (b, n) := split_dir url in map (expand b n) cs.

(* relative(): directory part of the importing file's url, then the url *)
Definition relative (cur url : string) : string := fst (split_dir cur) ++ url.

(* str::split('/') *)
Fixpoint split_slash_aux (s : string) (cur : string) : list string :=
  match s with
  | EmptyString => [cur]
  | String c r => if Ascii.eqb c "/"%char then cur :: split_slash_aux r "" else split_slash_aux r (cur ++ String c "")
  end.
Definition segments (s : string) : list string := split_slash_aux s "".

(* fn normalize (fix d80c9be): empty and `.` segments are dropped, `x/..` is folded (a `..` that has
   nothing to fold stays), a leading `/` is kept.  `parts_rev` is the Vec `parts`, last element first. *)
Fixpoint norm_parts (parts_rev : list string) (segs : list string) : list string :=
  match segs with
  | [] => rev parts_rev
  | sg :: r =>
      if String.eqb sg "" || String.eqb sg "." then norm_parts parts_rev r
      else if String.eqb sg ".." then
        match parts_rev with
        | p :: rest => if String.eqb p ".." then norm_parts (sg :: parts_rev) r else norm_parts rest r
        | [] => norm_parts [sg] r
        end
      else norm_parts (sg :: parts_rev) r
  end.

Definition normalize (url : string) : string :=
  (if starts_with url "/" then "/" else "") ++ String.concat "/" (norm_parts [] (segments url)).

(* Context::find_file (after fixes 3dfdada and d80c9be): the url is normalized; do_find_file on the
   normalized relative url; when that finds nothing and it differs from the url, do_find_file on the
   url itself.  do_find_file scans its names in order and stops at the first hit or error, so the two
   calls in sequence are one scan of the concatenated list (Proofs/C04.v find_file_two_phase). *)
Definition find_names (cur : string) (k : kind) (u : string) : list string :=
  let url := normalize u in
  let rel := normalize (relative cur url) in
  probe_names rel (cands k) ++ (if String.eqb rel url then [] else probe_names url (cands k)).

(* SourceFormat::try_from *)
Definition known_format (path : string) : bool := ends_with path ".scss" || ends_with path ".css".

(* the plain-css condition of Item::Import *)
Definition css_atom_holds (x : string) (unquoted_url : bool) (a : css_atom) : bool :=
  match a with
  | CStarts s => starts_with x s
  | CEnds s => ends_with x s
  | CIsCssUrl => unquoted_url && ends_with x ")" && starts_with x "url("
  end.
Definition plain_css (x : string) (unquoted_url : bool) : bool :=
  existsb (css_atom_holds x unquoted_url) plain_css_atoms.

(* ---------- the loader ---------- *)

(* what Loader::find_file answers: a file (identified by `id`, whose Read may
   fail), Ok(None), or Err *)
Inductive answer : Type := AFound (id : string) (readable : bool) | AMissing | AFail.

(* the loader is an oracle of the earlier calls (latest first) and the url *)
Definition oracle : Type := list string -> string -> answer.

Definition orc_of (lookup : string -> option string) : oracle :=
  fun _ u => match lookup u with Some id => AFound id true | None => AMissing end.

(* FsLoader::find_file: the first base (load path) under which the url is a file;
   `isfile` is the file system (full path -> identity of the file it denotes) *)
Definition join (base url : string) : string :=
  if String.eqb base "" then url else base ++ "/" ++ url.

Fixpoint first_some {A B} (f : A -> option B) (l : list A) : option B :=
  match l with
  | [] => None
  | a :: r => match f a with Some b => Some b | None => first_some f r end
  end.

Definition fs_find (isfile : string -> option string) (bases : list string) (url : string) : option string :=
  if String.eqb url "" then None else first_some (fun b => isfile (join b url)) bases.

(* ---------- directives and state ---------- *)

Inductive directive : Type :=
| DLoad (k : kind) (url : string)
| DImportUrl (x : string)            (* @import url(...) : unquoted, never a file *)
| DEmit (m : N).                     (* a rule carrying marker m *)

Definition body : Type := list directive.

Inductive event : Type :=
| EvBody (k : kind) (path id : string)   (* the body of a file starts executing *)
| EvCached (path : string)               (* load_module found the path in the cache *)
| EvDone (path : string).                (* the body of the file has been executed to its end *)

Record state : Type := mkSt {
  loading : list string;     (* Context.loading: keys only *)
  cache : list string;       (* CssData.modules of the current head: keys only *)
  out : list N;              (* markers emitted, latest first *)
  imports : list string;     (* plain css imports pushed, latest first *)
  calls : list string;       (* Loader::find_file calls, latest first *)
  trace : list event }.      (* ghost: executions, latest first *)

Definition st0 (root : string) : state := mkSt [root] [] [] [] [] [].

Definition set_loading l s := mkSt l (cache s) (out s) (imports s) (calls s) (trace s).
Definition set_cache c s := mkSt (loading s) c (out s) (imports s) (calls s) (trace s).
Definition lock p s := set_loading (p :: loading s) s.
Definition unlock p s := set_loading (remove1 p (loading s)) s.
Definition add_cache p s := set_cache (p :: cache s) s.
Definition emit m s := mkSt (loading s) (cache s) (m :: out s) (imports s) (calls s) (trace s).
Definition push_import x s := mkSt (loading s) (cache s) (out s) (x :: imports s) (calls s) (trace s).
Definition note e s := mkSt (loading s) (cache s) (out s) (imports s) (calls s) (e :: trace s).
Definition called u s := mkSt (loading s) (cache s) (out s) (imports s) (u :: calls s) (trace s).

Inductive err : Type :=
| ELoop (as_module : bool) | ENotFound | ELoaderFail | EReadFail | EUnknownFormat.

Inductive res : Type := ROk (s : state) | RErr (e : err) (s : state) | RFuel.

Section Interp.
Variable orc : oracle.
Variable content : string -> body.       (* file id -> its directives *)

Inductive found : Type :=
| FFound (path id : string) (readable : bool) (s : state) | FNone (s : state) | FFail (s : state).

(* the `for name in names` loop of do_find_file (also the direct case, with one name) *)
Fixpoint try_names (s : state) (names : list string) : found :=
  match names with
  | [] => FNone s
  | n :: r =>
      let s' := called n s in
      match orc (calls s) n with
      | AFound id rd => FFound n id rd s'
      | AMissing => try_names s' r
      | AFail => FFail s'
      end
  end.

Inductive located : Type :=
| LFile (path id : string) (s : state) | LNone (s : state) | LErr (e : err) (s : state).

(* Context::find_file: relative, lookup, SourceFile::read, lock_loading *)
Definition find_file (cur : string) (k : kind) (u : string) (s : state) : located :=
  match try_names s (find_names cur k u) with
  | FFail s' => LErr ELoaderFail s'
  | FNone s' => LNone s'
  | FFound p id rd s' =>
      if negb (known_format p) then LErr EUnknownFormat s'
      else if negb rd then LErr EReadFail s'
      else if mem p (loading s') then LErr (ELoop (negb (is_import k))) s'
      else LFile p id (lock p s')
  end.

(* handle_body over the directives of the file named `cur` *)
Fixpoint exec_body (loadf : bool -> string -> kind -> string -> state -> res)
         (cur : string) (b : body) (s : state) : res :=
  match b with
  | [] => ROk s
  | DEmit m :: r => exec_body loadf cur r (emit m s)
  | DImportUrl x :: r =>
      (* find_file is still called with the text `url(..)` *)
      match loadf true cur KImport x s with
      | ROk s' => exec_body loadf cur r s'
      | e => e
      end
  | DLoad k u :: r =>
      match loadf false cur k u s with
      | ROk s' => exec_body loadf cur r s'
      | e => e
      end
  end.

(* the body of the file p (= the file id), bracketed by the ghost events EvBody / EvDone *)
Definition exec_file (loadf : bool -> string -> kind -> string -> state -> res)
           (k : kind) (p id : string) (s1 : state) : res :=
  match exec_body loadf p (content id) (note (EvBody k p id) s1) with
  | ROk s2 => ROk (note (EvDone p) s2)
  | e => e
  end.

(* one load directive; `unq` = the url is an unquoted url(..) *)
Fixpoint load (fuel : nat) (unq : bool) (cur : string) (k : kind) (u : string) (s : state) : res :=
  match fuel with
  | O => RFuel
  | S f =>
    match find_file cur k u s with
    | LErr e s' => RErr e s'
    | LNone s' =>
        if is_import k && plain_css u unq then ROk (push_import u s') else RErr ENotFound s'
    | LFile p id s' =>
        let run := exec_file (load f) k p id in
        match k with
        | KUse | KForward =>
            (* load_module(path, init); unlock *)
            if mem p (cache s') then ROk (unlock p (note (EvCached p) s'))
            else match run s' with
                 | ROk s2 => ROk (unlock p (add_cache p s2))
                 | e => e
                 end
        | KImport =>
            (* a fresh CssData (empty module cache) receives the imported body *)
            match run (set_cache [] s') with
            | ROk s2 => ROk (unlock p (set_cache (cache s') s2))
            | e => e
            end
        | KLoadCss =>
            (* (fix 2454c18) the file stays locked until the body has been evaluated *)
            match run s' with
            | ROk s2 => ROk (unlock p s2)
            | e => e
            end
        end
    end
  end.

(* Context::transform on the root file: locked under its own name *)
Definition run (fuel : nat) (root rootid : string) : res :=
  match exec_file (load fuel) KImport root rootid (st0 root) with
  | ROk s => ROk (unlock root s)
  | e => e
  end.

End Interp.
