(* C06 model, part 2: math.random (rsass/src/sass/functions/math.rs)

     def!(f, random(limit = b"null"), |s| {
         match s.get_opt_map(name!(limit), check::positive_int)? {
             None => Ok(Value::scalar(fastrand::f64())),
             Some(bound) => Ok(Value::scalar(fastrand::i64(0..bound) + 1)),
         } });
     check::positive_int v = let v = int(v)?; if v > 0 { Ok(v) } else { Err(..) }
     check::int v          = Numeric::try_from(v)?.value.into_integer()     (the unit is ignored)
     Number::into_integer  = let int = self.value.round() as i64;
                             if ((int as f64) - self.value).abs() <= f32::EPSILON.into() { Ok(int) } else { Err(self) }

   The range bounds / offset / comparison are taken from Gen/Consts.v.  The generator
   itself (fastrand) is an oracle: see the Section in Proofs/C06.v. *)
From Coq Require Import ZArith Bool List.
From RV Require Import Base.FExpr Base.F64 Gen.Consts.
Import ListNotations.
Local Open Scope Z_scope.

Definition into_integer (x : f64) : option Z :=
  let i := f_as_i64 (fround x) in
  if fle (fabs (fsub (f_of_Z i) x)) f32_epsilon then Some i else None.

(* inl bound | inr 0 = "is not an int" | inr 1 = "Must be greater than .." *)
Definition positive_ok (v : Z) : bool := if pos_strict then pos_const <? v else pos_const <=? v.
Definition positive_int (x : f64) : Z + Z :=
  match into_integer x with
  | Some v => if positive_ok v then inl v else inr 1
  | None => inr 0
  end.

(* the half-open range handed to fastrand::i64 *)
Definition rnd_upper (bound : Z) : Z := if rnd_inclusive then bound + 1 else bound.
(* the i64 addition `+ 1` (panics on overflow when checks are on, else wraps) *)
Definition random_int (r : Z) : Z := r + rnd_offset.
Definition random_out (r : Z) : f64 := f_of_Z (random_int r).
