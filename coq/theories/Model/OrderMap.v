(* ordermap.rs (Vec-backed map, lookups by ==) over an abstract key equality,
   then sass/functions/map.rs and the map-literal arm of sass::Value::do_evaluate
   on the ValueLite values. *)
From Coq Require Import List NArith ZArith Bool.
From RV Require Import Base.Text Model.CssStr Model.ValueLite.
Import ListNotations.
Local Open Scope list_scope.

Section OrderMap.
  Context {K V : Type}.
  Variable eqb : K -> K -> bool.      (* stored_key == probe *)

  Definition omap := list (K * V).

  (* OrderMap::insert: replace the value of the first stored key == key, else push *)
  Fixpoint om_insert (m : omap) (key : K) (value : V) : omap * option V :=
    match m with
    | [] => ([(key, value)], None)
    | (k, v) :: r =>
        if eqb k key then ((k, value) :: r, Some v)
        else let (r', o) := om_insert r key value in ((k, v) :: r', o)
    end.

  (* OrderMap::get *)
  Fixpoint om_get (m : omap) (key : K) : option V :=
    match m with
    | [] => None
    | (k, v) :: r => if eqb k key then Some v else om_get r key
    end.

  (* OrderMap::remove: removes the first match only *)
  Fixpoint om_remove (m : omap) (key : K) : omap * option V :=
    match m with
    | [] => ([], None)
    | (k, v) :: r =>
        if eqb k key then (r, Some v)
        else let (r', o) := om_remove r key in ((k, v) :: r', o)
    end.

  (* OrderMap::contains_key *)
  Definition om_contains_key (m : omap) (key : K) : bool :=
    existsb (fun kv => eqb (fst kv) key) m.

  Definition om_keys (m : omap) : list K := map fst m.
  Definition om_values (m : omap) : list V := map snd m.

  (* `for (key, value) in map2 { map1.insert(key, value); }` *)
  Definition om_merge (m1 m2 : omap) : omap :=
    fold_left (fun acc kv => fst (om_insert acc (fst kv) (snd kv))) m2 m1.

  (* sass::Value::Map evaluation: insert every pair, a replaced value is "Duplicate key." *)
  Fixpoint om_literal (acc : omap) (l : list (K * V)) : option omap :=
    match l with
    | [] => Some acc
    | (k, v) :: r =>
        match om_insert acc k v with
        | (acc', None) => om_literal acc' r
        | (_, Some _) => None
        end
    end.

  (* css::Value::Map == Map: `a.len() == b.len() && a.iter().all(|(k, v)| b.get(k) == Some(v))`;
     veqv stored_in_b value_of_a *)
  Variable veqv : V -> V -> bool.
  Definition om_eq (a b : omap) : bool :=
    Nat.eqb (length a) (length b) &&
    forallb (fun kv => match om_get b (fst kv) with
                       | Some v' => veqv v' (snd kv)
                       | None => false
                       end) a.
End OrderMap.

(* ---- sass/functions/map.rs on values ---- *)
Definition vmap := list (value * value).

(* impl TryFrom<Value> for ValueMap *)
Definition as_map (v : value) : option vmap :=
  match v with
  | VMap m => Some m
  | VList [] _ _ => Some []
  | _ => None
  end.

Definition v_get (m : vmap) (k : value) : value :=
  match om_get veq m k with Some v => v | None => VNull end.
Definition v_has_key (m : vmap) (k : value) : value := VBool (om_contains_key veq m k).
Definition v_remove (m : vmap) (ks : list value) : vmap :=
  fold_left (fun acc k => fst (om_remove veq acc k)) ks m.
Definition v_merge (m1 m2 : vmap) : vmap := om_merge veq m1 m2.
Definition v_keys (m : vmap) : value := VList (om_keys m) (Some SComma) false.
Definition v_values (m : vmap) : value := VList (om_values m) (Some SComma) false.

(* fn set_inner (keys non-empty; the empty case is the error about a missing value):
   the nested map is read with get, the entry is then replaced in place by insert *)
Fixpoint set_inner (m : vmap) (keys : list value) (x : value) : option vmap :=
  match keys with
  | [] => None
  | [key] => Some (fst (om_insert veq m key x))
  | key :: rest =>
      let inner := match om_get veq m key with Some (VMap i) => i | _ => [] end in
      match set_inner inner rest x with
      | Some i' => Some (fst (om_insert veq m key (VMap i')))
      | None => None
      end
  end.

(* a map literal in the source; () with no entries is the empty list *)
Definition eval_literal (l : vmap) : option value :=
  match l with
  | [] => Some (VList [] None false)
  | _ => option_map VMap (om_literal veq [] l)
  end.
