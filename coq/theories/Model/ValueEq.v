(* css/value.rs: impl PartialEq for Value, the derived PartialOrd on the
   Numeric variant (value/operator.rs compares with `a < b`, `a > b` on
   css::Value), css/string.rs: PartialEq for CssString (escape-free strings),
   ordermap.rs (derived Vec equality).  Numbers: Model/Numeric.v.
   Strings: css/string.rs PartialEq through Model/CssStr.v (stored value with the
   escapes the parser keeps - escaped hyphen, space, backslash, control characters -
   and the quotes; different quotes compare the unquoted texts).
   Since the fix "map equality ignores key order" two
   maps are equal when they have the same length and every entry (k, v) of the
   left one finds, as FIRST entry of the right one with an equal key, an equal
   value.  The code evaluates those inner comparisons with the right map's
   entry on the left (`k' == k`, `Some(v') == Some(v)`); the model evaluates
   `veq k k'`, `veq v v'` (structural recursion on the left value).  The two
   agree whenever the inner pairs compare symmetrically, which C12_sym proves
   for every pair whose numbers have aligned units; Run/C12.v treats a map
   comparison involving numbers with two different units as outside the model. *)
From Coq Require Import String List ZArith Bool NArith.
From RV Require Import Base.F64 Base.Text Model.Units Model.Numeric Model.CssStr.
Import ListNotations.
Local Open Scope Z_scope.

Inductive value : Type :=
| VNull | VTrue | VFalse
| VNum (n : numeric) (calc : bool)
| VStr (s : cssstring)                                   (* stored value (escapes as kept by the parser) + quotes *)
| VList (xs : list value) (sep : Z) (bracketed : bool)    (* sep: 0 = None, 1 = space, 2 = comma, 3 = slash *)
| VMap (kvs : list (value * value))
| VOther.                                                  (* colours, functions, ...: not modelled *)

(* CssString == CssString (Model/CssStr.v css_eq: same quotes: stored values; otherwise both unquoted);
   the u32 overflow panic of unquote (None) counts as unequal and is not reachable from the generated strings *)
Definition str_eqb (a b : cssstring) : bool :=
  match css_eq a b with Some r => r | None => false end.

(* Numeric == Numeric; a unit set outside Model/Units counts as unequal (and as unmodelled, see below) *)
Definition num_eqb (a b : numeric) : bool :=
  match numeric_eq a b with Some r => r | None => false end.

Section ListEq.
  Variable A : Type.
  Variable eqb : A -> A -> bool.
  Fixpoint all2 (xs ys : list A) : bool :=
    match xs, ys with
    | [], [] => true
    | x :: xs', y :: ys' => eqb x y && all2 xs' ys'
    | _, _ => false
    end.
End ListEq.

Fixpoint veq (a b : value) {struct a} : bool :=
  match a, b with
  | VNull, VNull | VTrue, VTrue | VFalse, VFalse => true
  | VNum x _, VNum y _ => num_eqb x y
  | VStr s, VStr t => str_eqb s t
  | VList xs s1 b1, VList ys s2 b2 =>
      (fix go (xs ys : list value) : bool :=
         match xs, ys with
         | [], [] => true
         | x :: xs', y :: ys' => veq x y && go xs' ys'
         | _, _ => false
         end) xs ys && (s1 =? s2) && Bool.eqb b1 b2
  | VMap kvs, VMap kvs' =>
      (* a.len() == b.len() && a.iter().all(|(k, v)| b.get(k) == Some(v)); b.get = first entry whose key is equal *)
      Nat.eqb (length kvs) (length kvs') &&
      (fix all_found (l : list (value * value)) : bool :=
         match l with
         | (k, v) :: r =>
             (fix get (lb : list (value * value)) : bool :=
                match lb with
                | (k', v') :: rb => if veq k k' then veq v v' else get rb
                | [] => false
                end) kvs'
             && all_found r
         | [] => true
         end) kvs
  | VList xs _ _, VMap kvs => match xs, kvs with [], [] => true | _, _ => false end
  | VMap kvs, VList xs _ _ => match kvs, xs with [], [] => true | _, _ => false end
  | _, _ => false
  end.

(* `a != b` is the default `ne`: the negation of `eq` *)
Definition vneq (a b : value) : bool := negb (veq a b).

(* derived PartialOrd for Value::Numeric(Numeric, bool): lexicographic, the
   `calculated` flag second (false < true) *)
Definition bool_cmp (a b : bool) : comparison :=
  match a, b with
  | false, true => Lt
  | true, false => Gt
  | _, _ => Eq
  end.
Definition vnum_cmp (x : numeric) (cx : bool) (y : numeric) (cy : bool) : option (option comparison) :=
  match numeric_cmp x y with
  | Some (Some Eq) => Some (Some (bool_cmp cx cy))
  | o => o
  end.
(* `a < b` / `a > b` of Operator::eval for two numbers (None: unit set outside the model) *)
Definition vlt (a b : value) : option bool :=
  match a, b with
  | VNum x cx, VNum y cy =>
      match vnum_cmp x cx y cy with
      | Some (Some Lt) => Some true
      | Some _ => Some false
      | None => None
      end
  | _, _ => None
  end.
Definition vgt (a b : value) : option bool :=
  match a, b with
  | VNum x cx, VNum y cy =>
      match vnum_cmp x cx y cy with
      | Some (Some Gt) => Some true
      | Some _ => Some false
      | None => None
      end
  | _, _ => None
  end.

(* is the value inside the model (no VOther, every numeric comparison modelled)? *)
Fixpoint has_other (v : value) : bool :=
  match v with
  | VOther => true
  | VList xs _ _ => existsb has_other xs
  | VMap kvs => existsb (fun kv => has_other (fst kv) || has_other (snd kv)) kvs
  | _ => false
  end.

(* numbers occurring in a value, left to right *)
Fixpoint numbers_of (v : value) : list numeric :=
  match v with
  | VNum n _ => [n]
  | VList xs _ _ => flat_map numbers_of xs
  | VMap kvs => flat_map (fun kv => (numbers_of (fst kv) ++ numbers_of (snd kv))%list) kvs
  | _ => []
  end.
Definition nan_free (v : value) : bool :=
  forallb (fun n => negb (f_is_nan (nval n))) (numbers_of v).
