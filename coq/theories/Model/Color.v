(* Model of value/colors/{rgba,hsla,hwba,convert,mod}.rs on Flocq binary64:
   the three constructors with their clamping, the six conversions, the
   tolerance comparison of channels, and the numeric paths of the Sass
   constructors rgb() / hsl() / hwb() (sass/functions/color/{rgb,hsl,hwb}.rs).
   Every operation used is an exactly specified IEEE-754 operation (+ - * /
   floor, fmod, comparisons); no libm function occurs in this code. *)
From Coq Require Import String List ZArith Bool.
From Flocq Require Import Core.Core IEEE754.BinarySingleNaN IEEE754.Binary IEEE754.Bits.
From RV Require Import Base.F64 Base.FMod.
Import ListNotations.
Local Open Scope Z_scope.

(* ---- Rust f64 helpers ---- *)
(* f64::max / f64::min (a NaN operand is ignored): fmax / fmin of Base/F64.v *)
(* f64::clamp(min, max): NaN stays NaN *)
Definition fclamp (x lo hi : f64) : f64 :=
  if flt x lo then lo else if fgt x hi then hi else x.

Definition fc (z : Z) : f64 := f_of_Z z.
Definition f255 : f64 := fc 255.
Definition f360 : f64 := fc 360.
Definition f100 : f64 := fc 100.
Definition f2 : f64 := fc 2.
Definition f6 : f64 := fc 6.
Definition f4 : f64 := fc 4.
Definition f60 : f64 := fdiv f360 f6.                     (* 360. / 6. *)
Definition f_third : f64 := fdiv f_one (fc 3).            (* const THIRD: f64 = 1. / 3. *)
Definition f_1e7 : f64 := of_bits 4502148214488346440.    (* 1e-7 *)
Definition f_inf : f64 := of_bits 9218868437227405312.
Definition f_max : f64 := of_bits 9218868437227405311.    (* f64::MAX *)
Definition f_min_pos : f64 := of_bits 4503599627370496.   (* f64::MIN_POSITIVE *)

(* f64::midpoint *)
Definition fmidpoint (a b : f64) : f64 :=
  let lo := fmul f_min_pos f2 in
  let hi := fdiv f_max f2 in
  let aa := fabs a in let ab := fabs b in
  if fle aa hi && fle ab hi then fdiv (fadd a b) f2
  else if flt aa lo then fadd a (fdiv b f2)
  else if flt ab lo then fadd (fdiv a f2) b
  else fadd (fdiv a f2) (fdiv b f2).

(* ---- the three representations ---- *)
Inductive rgb_source : Type := SLongHex | SShortHex | SName | SRgb.
Record rgba := mkRgba { r_red : f64; r_green : f64; r_blue : f64; r_alpha : f64; r_source : rgb_source }.
Record hsla := mkHsla { h_hue : f64; h_sat : f64; h_lum : f64; h_alpha : f64; h_format : bool }.
Record hwba := mkHwba { w_hue : f64; w_w : f64; w_b : f64; w_alpha : f64 }.

Inductive color : Type :=
| CRgba (c : rgba)
| CHsla (c : hsla)
| CHwba (c : hwba).

(* fn cap(n, max) = f64::min(f64::max(0., n), max) *)
Definition cap (n mx : f64) : f64 := fmin (fmax f_zero n) mx.

Definition rgba_new (r g b a : f64) (s : rgb_source) : rgba :=
  mkRgba (cap r f255) (cap g f255) (cap b f255) (cap a f_one) s.

Definition rgba_from_bytes (r g b : Z) : rgba :=
  mkRgba (fc r) (fc g) (fc b) f_one SLongHex.

(* deg_mod *)
Definition deg_mod (v : f64) : f64 :=
  let r := ffmod v f360 in
  if f_sign_neg r then fadd r f360 else r.

Definition hsla_new (h s l a : f64) (fmt : bool) : hsla :=
  mkHsla (deg_mod h) (fclamp s f_zero f_inf) l (fmin (fmax a f_zero) f_one) fmt.

Definition hwba_new (h w b a : f64) : hwba :=
  let sum := fadd w b in
  let '(w', b') := if fgt sum f_one then (fdiv w sum, fdiv b sum) else (w, b) in
  mkHwba h w' b' (fclamp a f_zero f_one).

(* ---- conversions (convert.rs) ---- *)
Definition hue2rgb (p q t : f64) : f64 :=
  let t := fmul (fsub t (ffloor t)) f6 in
  let k := f_as_sat 0 255 t in                 (* `t as u8` *)
  if k =? 0 then fadd p (fmul (fsub q p) t)
  else if (k =? 1) || (k =? 2) then q
  else if k =? 3 then fadd p (fmul (fsub p q) (fsub t f4))
  else p.

Definition rgba_of_hsla (c : hsla) : rgba :=
  let hue := fdiv (h_hue c) f360 in
  let sat := h_sat c in
  let lum := h_lum c in
  if feq sat f_zero then
    let gray := fmul lum f255 in
    rgba_new gray gray gray (h_alpha c) SName
  else
    let q := if flt lum f_half then fmul lum (fadd sat f_one)
             else fsub (fadd lum sat) (fmul lum sat) in
    let p := fsub (fmul lum f2) q in
    rgba_new (fmul (hue2rgb p q (fadd hue f_third)) f255)
             (fmul (hue2rgb p q hue) f255)
             (fmul (hue2rgb p q (fsub hue f_third)) f255)
             (h_alpha c) SName.

Definition hsla_of_hwba (c : hwba) : hsla :=
  let w := w_w c in let b := w_b c in
  let l := fmidpoint (fsub f_one b) w in
  let s := if feq l f_zero || feq l f_one then f_zero
           else fdiv (fsub (fsub f_one b) l) (fmin l (fsub f_one l)) in
  let '(hue, lum) := if f_is_finite w && f_is_finite b then (w_hue c, l) else (f_nan, f_nan) in
  hsla_new hue s lum (w_alpha c) false.

Definition rgba_of_hwba (c : hwba) : rgba := rgba_of_hsla (hsla_of_hwba c).

(* max_min_largest (fix e465284: ties go to the first of the equal channels) *)
Definition max_min_largest (a b c : f64) : f64 * f64 * Z :=
  let '(mx, lg) := if fge a b && fge a c then (a, 0)
                   else if fge b c then (b, 1) else (c, 2) in
  (mx, fmin (fmin a b) c, lg).

Definition hsla_of_rgba (c : rgba) : hsla :=
  let red := fdiv (r_red c) f255 in
  let green := fdiv (r_green c) f255 in
  let blue := fdiv (r_blue c) f255 in
  let '(mx, mn, lg) := max_min_largest red green blue in
  if feq mx mn then hsla_new f_zero f_zero mx (r_alpha c) false
  else
    let d := fsub mx mn in
    let hue := fmul
      (if lg =? 0 then fadd (fdiv (fsub green blue) d) (if flt green blue then f6 else f_zero)
       else if lg =? 1 then fadd (fdiv (fsub blue red) d) f2
       else fadd (fdiv (fsub red green) d) f4) f60 in
    let mm := fadd mx mn in
    let sat := fdiv d (if fgt mm f_one then fadd (fneg mm) f2 else mm) in
    hsla_new hue sat (fdiv mm f2) (r_alpha c) false.

Definition min3 (a b c : f64) : f64 := fmin (fmin a b) c.   (* red.min(blue).min(green) *)
Definition max3 (a b c : f64) : f64 := fmax (fmax a b) c.

Definition hwba_of_rgba (c : rgba) : hwba :=
  let h := hsla_of_rgba c in
  hwba_new (h_hue h)
    (fdiv (min3 (r_red c) (r_blue c) (r_green c)) f255)
    (fsub f_one (fdiv (max3 (r_red c) (r_blue c) (r_green c)) f255))
    (h_alpha h).
Definition hwba_of_hsla (c : hsla) : hwba :=
  let r := rgba_of_hsla c in
  hwba_new (h_hue c)
    (fdiv (min3 (r_red r) (r_blue r) (r_green r)) f255)
    (fsub f_one (fdiv (max3 (r_red r) (r_blue r) (r_green r)) f255))
    (h_alpha c).

Definition to_rgba (c : color) : rgba :=
  match c with CRgba x => x | CHsla x => rgba_of_hsla x | CHwba x => rgba_of_hwba x end.
Definition to_hsla (c : color) : hsla :=
  match c with CRgba x => hsla_of_rgba x | CHsla x => x | CHwba x => hsla_of_hwba x end.
Definition to_hwba (c : color) : hwba :=
  match c with CRgba x => hwba_of_rgba x | CHsla x => hwba_of_hsla x | CHwba x => x end.

(* ---- comparison of channels (rgba.rs cmp_chan) and Rgba ordering ---- *)
Definition cmp_chan (a b : f64) : comparison :=
  if flt (fabs (fsub a b)) f_1e7 then Eq
  else match f_is_nan a, f_is_nan b with
       | true, true => Eq
       | true, false => Lt
       | false, true => Gt
       | false, false => match fcmp a b with Some c => c | None => Eq end
       end.
Definition then_with (c d : comparison) : comparison := match c with Eq => d | _ => c end.
Definition rgba_cmp (x y : rgba) : comparison :=
  then_with (cmp_chan (r_red x) (r_red y))
    (then_with (cmp_chan (r_green x) (r_green y))
       (then_with (cmp_chan (r_blue x) (r_blue y)) (cmp_chan (r_alpha x) (r_alpha y)))).

(* try_bytes / is_integer *)
Definition near_integer (v : f64) : bool := flt (fabs (fsub v (fround v))) f_1e7.
Definition is_opaque (c : rgba) : bool := fge (r_alpha c) f_one.
Definition byte_of (v : f64) : option Z :=
  if flt (fabs (fsub (fround v) v)) f_1e7 then Some (f_as_sat 0 255 (fround v)) else None.
Definition try_bytes (c : rgba) : option (Z * Z * Z) :=
  if negb (is_opaque c) then None else
  match byte_of (r_red c), byte_of (r_green c), byte_of (r_blue c) with
  | Some r, Some g, Some b => Some (r, g, b)
  | _, _, _ => None
  end.
Definition rgba_is_integer (c : rgba) : bool :=
  near_integer (r_red c) && near_integer (r_green c) && near_integer (r_blue c) && is_opaque c.

(* ---- the Sass constructors, numeric arguments ---- *)
(* rgb(r, g, b, a): channels plain numbers (a percentage is scaled by 255/100) *)
Definition chan_of (v : f64) (pct : bool) : f64 := if pct then fdiv (fmul v f255) f100 else v.
Definition sass_rgb (r g b a : f64) : color := CRgba (rgba_new r g b a SRgb).
(* hsl(h, s%, l%, a) *)
Definition sass_hsl (h s l a : f64) : color :=
  CHsla (hsla_new h (fmax f_zero (fdiv s f100)) (fdiv l f100) a true).
(* hwb(h w% b% / a) *)
Definition sass_hwb (h w b a : f64) : color :=
  let w := fdiv w f100 in let b := fdiv b f100 in
  let h := if fge (fadd w b) f_one then f_zero else h in
  let c := hwba_new h w b a in
  let r := rgba_of_hwba c in
  if rgba_is_integer r && fge w f_zero then CRgba r else CHwba c.
