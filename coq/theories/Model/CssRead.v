(* Model of the quoted-string readers of the plain-CSS parser
   (parser/css/strings.rs css_string_dq / css_string_sq), on code points.

   The loop is many0(alt(is_not(QUOTE) | tag(\QUOTE) | normalized_escaped_char_q)):
   is_not takes the longest non-empty run without the quote character -
   backslashes included - so after it the next character is the quote; the
   other two alternatives can only fire on an input that starts with a
   backslash FOLLOWED by nothing is_not can take, which never happens (a
   backslash itself is taken by is_not).  Hence the reader returns the raw text
   up to the first quote character, escapes undecoded. *)
From Coq Require Import List NArith Bool.
From RV Require Import Base.Text Model.CssStr.
Import ListNotations.
Local Open Scope N_scope.

Fixpoint span_not (q : N) (x : list N) : list N * list N :=
  match x with
  | c :: r => if c =? q then ([], x) else let (a, b) := span_not q r in (c :: a, b)
  | [] => ([], [])
  end.

(* Some (value, rest) ; None = parse error *)
Definition read_quoted (q : N) (x : list N) : option (list N * list N) :=
  match x with
  | c :: r =>
      if c =? q then
        let (body, rest) := span_not q r in
        match rest with
        | c2 :: rest' => if c2 =? q then Some (body, rest') else None
        | [] => None
        end
      else None
  | [] => None
  end.
Definition read_dq := read_quoted 34.
Definition read_sq := read_quoted 39.

(* print a quoted string, read it back as plain CSS, print it again *)
Definition reprint (s : cssstring) : option (list N * list N) :=
  match quote_char (s_q s) with
  | Some q => match read_quoted q (css_display s) with
              | Some (v, rest) => Some (css_display (mkStr v (s_q s)), rest)
              | None => None
              end
  | None => None
  end.

(* the value parser wraps the string with From<CssString> for Value, i.e. pref_dquotes *)
Definition reprint_value (s : cssstring) : option (list N * list N) :=
  match quote_char (s_q s) with
  | Some q => match read_quoted q (css_display s) with
              | Some (v, rest) => Some (css_display (pref_dquotes (mkStr v (s_q s))), rest)
              | None => None
              end
  | None => None
  end.
