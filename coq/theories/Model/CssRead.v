(* Model of the quoted-string readers of the plain-CSS parser
   (parser/css/strings.rs css_string_dq / css_string_sq, since rsass 4637bd2), on code points.

   The loop is many0(alt(is_not(QUOTE BACKSLASH) | tag(BACKSLASH QUOTE) -> QUOTE |
   normalized_escaped_char_q)): plain characters are copied, an escaped quote gives the
   quote character.  Other backslash escapes (hex escapes, normalisation of control
   characters, `\\`, `\-`, `\ `) are NOT modelled: on them the model declines (None). *)
From Coq Require Import List NArith Bool.
From RV Require Import Base.Text Model.CssStr.
Import ListNotations.
Local Open Scope N_scope.

(* Some (value, rest after the closing quote); None = no closing quote, or an escape the
   model does not cover *)
Fixpoint read_body (q : N) (x : list N) : option (list N * list N) :=
  match x with
  | [] => None
  | c :: r =>
      if c =? q then Some ([], r)
      else if c =? 92 then
        match r with
        | c2 :: r2 => if c2 =? q then
                        match read_body q r2 with Some (v, rest) => Some (q :: v, rest) | None => None end
                      else None
        | [] => None
        end
      else match read_body q r with Some (v, rest) => Some (c :: v, rest) | None => None end
  end.
Definition read_quoted (q : N) (x : list N) : option (list N * list N) :=
  match x with
  | c :: r => if c =? q then read_body q r else None
  | [] => None
  end.
Definition read_dq := read_quoted 34.
Definition read_sq := read_quoted 39.

(* Display for a QUOTED CssString (css/string.rs, rsass 71d4ea9), kept here so that C09 does
   not depend on the shape of Model/CssStr.css_display: the quote character is escaped, a
   private-use character is written as a hex escape, followed by a space when a hex digit or a
   space comes next *)
Definition is_hexdigit (c : N) : bool :=
  is_ascii_digit c || ((97 <=? c) && (c <=? 102)) || ((65 <=? c) && (c <=? 70)).
Fixpoint disp_body (q : N) (v : list N) : list N :=
  match v with
  | [] => []
  | c :: r =>
      (if c =? q then [92; c]
       else if is_private_use c then
         92 :: hex_of_N c ++ match r with
                             | n :: _ => if is_hexdigit n || (n =? 32) then [32] else []
                             | [] => []
                             end
       else [c]) ++ disp_body q r
  end.
Definition display_q (s : cssstring) : list N :=
  match quote_char (s_q s) with
  | Some q => q :: disp_body q (s_val s) ++ [q]
  | None => []
  end.

(* print a quoted string, read it back as plain CSS, print it again *)
Definition reprint (s : cssstring) : option (list N * list N) :=
  match quote_char (s_q s) with
  | Some q => match read_quoted q (display_q s) with
              | Some (v, rest) => Some (display_q (mkStr v (s_q s)), rest)
              | None => None
              end
  | None => None
  end.

(* the value parser wraps the string with From<CssString> for Value, i.e. pref_dquotes *)
Definition reprint_value (s : cssstring) : option (list N * list N) :=
  match quote_char (s_q s) with
  | Some q => match read_quoted q (display_q s) with
              | Some (v, rest) => Some (display_q (pref_dquotes (mkStr v (s_q s))), rest)
              | None => None
              end
  | None => None
  end.
