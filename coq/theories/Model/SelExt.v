(* selector.rs / selectorset.rs / cssselectorset.rs: Selector::append, extend, replace with
   CompoundSelector::dedup and Pseudo::replace.  Selector::unify (inner_unify, unify_relbox) is NOT
   modelled: extend and replace take it as a section variable, so everything proved here holds for
   whatever unify computes. *)
From Coq Require Import List NArith Bool.
From RV Require Import Base.Text Model.Sel Model.SelAlg Model.SelNest.
Import ListNotations.
Import String.StringSyntax.
Local Open Scope string_scope.
Local Open Scope list_scope.

(* ---------------- Selector::append / CssSelectorSet::append ---------------- *)
Inductive ares (A : Type) : Type := AOk (a : A) | AErr | APanic | AUnmodelled.
Arguments AOk {A} a.
Arguments AErr {A}.
Arguments APanic {A}.
Arguments AUnmodelled {A}.

(* ElemType::cant_append / CompoundSelector::cant_append *)
Definition elem_cant_append (e : text) : bool :=
  match e with 42%N :: _ => true | 124%N :: _ => true | _ => false end.
Definition comp_cant_append (c : compound) : bool :=
  comp_is_empty c || match b_elem (c_base c) with Some e => elem_cant_append e | None => false end.

Fixpoint append_sel (self other : sel) : ares sel :=
  if is_local_empty self then AErr
  else match other with
       | Sel (Some (k, r)) c =>
           match append_sel self r with
           | AOk r' => AOk (Sel (Some (k, r')) c)
           | e => e
           end
       | Sel None c =>
           if comp_cant_append c then AErr
           else match comp_append (s_comp self) c with
                | Ok a => AOk (Sel (s_rel self) a)
                | Fail => AErr                        (* the ParseError is propagated as an error *)
                | Unmodelled => AUnmodelled
                end
       end.

Fixpoint ares_all {A} (l : list (ares A)) : ares (list A) :=
  match l with
  | [] => AOk []
  | r :: rest =>
      match r with
      | AOk a => match ares_all rest with AOk l' => AOk (a :: l') | e => e end
      | AErr => AErr | APanic => APanic | AUnmodelled => AUnmodelled
      end
  end.

(* base-major product *)
Definition append_set (self ext : sels) : ares sels :=
  ares_all (flat_map (fun b => map (fun e => append_sel b e) ext) self).

(* ---------------- dedup ---------------- *)
Definition comp_dedup (s original : compound) : compound :=
  match s, original with
  | Comp b ps, Comp ob ops =>
      Comp (mkBase (b_backref b)
                   (if opt_eqb text_eqb (b_elem ob) (b_elem b)
                       && negb (match b_elem b with None => true | Some e => elem_is_any e end)
                    then None else b_elem b)
                   (filter (fun p => negb (existsb (text_eqb p) (b_phs ob))) (b_phs b))
                   (filter (fun c => negb (existsb (text_eqb c) (b_classes ob))) (b_classes b))
                   (if opt_eqb text_eqb (b_id ob) (b_id b) then None else b_id b)
                   (filter (fun a => negb (existsb (attr_eqb a) (b_attrs ob))) (b_attrs b)))
           (filter (fun p => negb (existsb (fun o => pseudo_eqb p o) ops)) ps)
  end.

Section WithUnify.
  Variable unify : sel -> sel -> list sel.       (* Selector::unify / unify_extend *)

  (* ---------------- extend ---------------- *)
  Definition extend_step (extender : sels) (original : sel) (s : sel) : list sel :=
    if sup_sel original s then
      let base := s in
      let s' := Sel (s_rel s) (comp_dedup (s_comp s) (s_comp original)) in
      base :: filter (fun r => negb (sup_sel base r)) (flat_map (fun r => unify s' r) extender)
    else [s].

  Definition extend_sel (extendee extender : sels) (s : sel) : list sel :=
    fold_left (fun result original => flat_map (extend_step extender original) result) extendee [s].

  Definition is_complex (s : sel) : bool := negb (is_none (s_rel s)).

  (* SelectorSet::extend: None = "Can't extend complex selector" *)
  Definition extend_set (s extendee extender : sels) : option sels :=
    if existsb is_complex extendee then None
    else Some (flat_map (extend_sel extendee extender) s).

  (* ---------------- replace ---------------- *)
  Definition replace_names : list text :=
    map str ["is"; "matches"; "not"; "any"; "where"; "has"; "host"; "host-context"].

  Definition replace_step (replacement : sels) (original : sel) (s : sel) : list sel :=
    if sup_sel original s then
      let s' := Sel (s_rel s) (comp_dedup (s_comp s) (s_comp original)) in
      flat_map (fun r => unify s' r) replacement
    else [s].

  (* the `unwrap()` of Pseudo::replace cannot fail: the complex-selector check has passed before *)
  Fixpoint replace_sel (original replacement : sels) (s : sel) : list sel :=
    match s with
    | Sel rel c =>
        fold_left (fun result o => flat_map (replace_step replacement o) result) original
                  [Sel rel (replace_comp original replacement c)]
    end
  with replace_comp (original replacement : sels) (c : compound) : compound :=
    match c with Comp b ps => Comp b (map (replace_pseudo original replacement) ps) end
  with replace_pseudo (original replacement : sels) (p : pseudo) : pseudo :=
    match p with
    | Pseudo n e (ArgSel l) =>
        if name_in n replace_names then Pseudo n e (ArgSel (flat_map (replace_sel original replacement) l)) else p
    | Pseudo _ _ _ => p
    end.

  Definition replace_set (s original replacement : sels) : option sels :=
    if existsb is_complex original then None
    else Some (flat_map (replace_sel original replacement) s).
End WithUnify.
