(* Model of the text of a colour: Display for Formatted<Rgba> (name / short hex / hex / rgb() /
   rgba() / transparent, by style and source notation), Formatted<Hsla>, and the dispatch of
   Formatted<Color> (value/colors/{rgba,hsla,mod}.rs).  Numbers are printed by the exact
   dyadic formatter of Model/Calc.v; a channel it cannot print puts the case outside the model. *)
From Coq Require Import String List NArith ZArith Bool.
From RV Require Import Base.F64 Base.Text Gen.Colors Model.Calc Model.Color.
Import ListNotations.
Local Open Scope Z_scope.
Local Open Scope list_scope.

Fixpoint first_name (v : Z) (l : list (string * Z)) : option string :=
  match l with
  | [] => None
  | (n, v') :: r => if v =? v' then Some n else first_name v r
  end.
(* Rgba::name *)
Definition name_of (c : rgba) : option string :=
  match try_bytes c with
  | Some (r, g, b) => first_name (r * 65536 + g * 256 + b) color_table
  | None => None
  end.

Definition hexd (d : Z) : N := hex_char (Z.to_N d).
Definition long_hex (r g b : Z) : list N :=
  [35%N; hexd (r / 16); hexd (r mod 16); hexd (g / 16); hexd (g mod 16); hexd (b / 16); hexd (b mod 16)].
Definition short_hex (r g b : Z) : list N := [35%N; hexd (r / 17); hexd (g / 17); hexd (b / 17)].

(* Number::format, for the numbers the dyadic formatter covers; compressed drops a leading 0 *)
Definition fmt_num (compressed : bool) (x : f64) : option (list N) :=
  match fmt_dyadic x with
  | Some ds =>
      if compressed then
        Some (match ds with
              | 48%N :: 46%N :: r => 46%N :: r
              | 45%N :: 48%N :: 46%N :: r => 45%N :: 46%N :: r
              | _ => ds
              end)
      else Some ds
  | None => None
  end.

Definition all_zero (c : rgba) : bool :=
  feq (r_alpha c) f_zero && feq (r_red c) f_zero && feq (r_green c) f_zero && feq (r_blue c) f_zero.

Definition sep (compressed : bool) : list N := if compressed then [44%N] else [44%N; 32%N].

Definition write_rgba (compressed : bool) (c : rgba) : option (list N) :=
  match fmt_num compressed (r_red c), fmt_num compressed (r_green c), fmt_num compressed (r_blue c) with
  | Some r, Some g, Some b =>
      if is_opaque c then
        Some (bytes_of_string "rgb(" ++ r ++ sep compressed ++ g ++ sep compressed ++ b ++ [41%N])
      else
        match fmt_num compressed (r_alpha c) with
        | Some a => Some (bytes_of_string "rgba(" ++ r ++ sep compressed ++ g ++ sep compressed ++ b
                          ++ sep compressed ++ a ++ [41%N])
        | None => None
        end
  | _, _, _ => None
  end.

Definition fmt_rgba (compressed : bool) (c : rgba) : option (list N) :=
  match try_bytes c with
  | Some (r, g, b) =>
      let short := (r mod 17 =? 0) && (g mod 17 =? 0) && (b mod 17 =? 0) in
      let hex_len := if short then 4%nat else 7%nat in
      if compressed then
        match name_of c with
        | Some n => if Nat.leb (String.length n) hex_len then Some (bytes_of_string n)
                    else Some (if short then short_hex r g b else long_hex r g b)
        | None => Some (if short then short_hex r g b else long_hex r g b)
        end
      else
        match r_source c with
        | SLongHex => Some (long_hex r g b)
        | SShortHex => Some (short_hex r g b)
        | SName => match name_of c with Some n => Some (bytes_of_string n) | None => Some (long_hex r g b) end
        | SRgb => Some (bytes_of_string "rgb(" ++ dec_of_Z r ++ [44%N; 32%N] ++ dec_of_Z g ++ [44%N; 32%N]
                        ++ dec_of_Z b ++ [41%N])
        end
  | None =>
      if compressed && all_zero c then Some (bytes_of_string "transparent")
      else write_rgba compressed c
  end.

Definition f_360 : f64 := f360.
Definition fmt_hsla (compressed : bool) (c : hsla) : option (list N) :=
  let hue := if fgt (fadd (h_hue c) f_1e7) f360 then f_zero else h_hue c in
  match fmt_num compressed hue, fmt_num compressed (fmul (h_sat c) f100), fmt_num compressed (fmul (h_lum c) f100) with
  | Some h, Some s, Some l =>
      if fge (h_alpha c) f_one then
        Some (bytes_of_string "hsl(" ++ h ++ [44%N; 32%N] ++ s ++ [37%N; 44%N; 32%N] ++ l ++ [37%N; 41%N])
      else
        match fmt_num compressed (h_alpha c) with
        | Some a => Some (bytes_of_string "hsla(" ++ h ++ [44%N; 32%N] ++ s ++ [37%N; 44%N; 32%N] ++ l
                          ++ [37%N; 44%N; 32%N] ++ a ++ [41%N])
        | None => None
        end
  | _, _, _ => None
  end.

(* Display for Formatted<Color> *)
Definition fmt_color (compressed : bool) (c : color) : option (list N) :=
  match c with
  | CRgba x => fmt_rgba compressed x
  | CHsla x => if h_format x then fmt_hsla compressed x else fmt_rgba compressed (rgba_of_hsla x)
  | CHwba x => fmt_hsla compressed (hsla_of_hwba x)
  end.
