(* C06 model, part 1: the process-wide counter behind unique-id()
   (rsass/src/sass/functions/string.rs, `def!(f, unique_id(), ..)`):

     static CALL_ID: LazyLock<Mutex<u64>> = .. Mutex::new(u64::from(pid) * 0xa01)
     let v = { let mut v = CALL_ID.lock().unwrap(); *v += 1; *v };
     Ok(format!("x{v:x}").into())

   The constants (counter width, multiplier, increment, prefix, radix, case)
   are parameters here; Run/Proofs instantiate them from Gen/Consts.v.

   Two models of N threads calling the function, both driven by an arbitrary
   schedule = list of thread ids:
   * atomic: one schedule entry = one whole critical section (lock; +=; read; unlock);
   * fine:   one schedule entry = one micro step of that thread (acquire / increment /
             read into the local / unlock-and-return); a thread scheduled while another
             one holds the lock does not move (Mutex contract: mutual exclusion).
   The increment is modelled as wrapping (release build); with overflow checks it
   panics instead; all theorems carry the explicit no-wrap side condition under
   which the two agree. *)
From Coq Require Import List NArith Bool Arith.
Import ListNotations.
Local Open Scope N_scope.

(* ---- number formatting: `{v:x}` / `{v:X}` / `{v:o}` / `{v:b}` / `{v}` ---- *)
Definition digit_char (upper : bool) (d : N) : N :=
  if d <? 10 then 48 + d else (if upper then 55 else 87) + d.

Fixpoint digits_go (r : N) (up : bool) (fuel : nat) (n : N) (acc : list N) : list N :=
  match fuel with
  | O => acc
  | S f => if n <? r then digit_char up n :: acc
           else digits_go r up f (n / r) (digit_char up (n mod r) :: acc)
  end.
(* 128 digits are enough for every unsigned type up to u128 in every radix >= 2 *)
Definition fmt_radix (r : N) (up : bool) (n : N) : list N := digits_go r up 128 n [].

(* reading the digits back (left inverse of fmt_radix, used for injectivity and by the runner) *)
Definition char_val (c : N) : N :=
  if c <? 58 then c - 48 else if c <? 97 then c - 55 else c - 87.
Definition parse_from (r : N) (a : N) (l : list N) : N :=
  fold_left (fun a c => a * r + char_val c) l a.
Definition parse_radix (r : N) (l : list N) : N := parse_from r 0 l.

Record uid_params := mkUid {
  up_modulus : N;      (* 2 ^ width of the counter type *)
  up_incr : N; up_radix : N; up_upper : bool;
  up_prefix : list N; up_suffix : list N }.

Definition modulus (p : uid_params) : N := up_modulus p.
Definition id_bytes (p : uid_params) (v : N) : list N :=
  up_prefix p ++ fmt_radix (up_radix p) (up_upper p) v ++ up_suffix p.

(* ---- atomic model ---- *)
(* wrapping add; the test only avoids a division on the common path *)
Definition bump (p : uid_params) (c : N) : N :=
  let s := c + up_incr p in if s <? modulus p then s else s mod modulus p.

Fixpoint run_atomic (p : uid_params) (c : N) (sched : list nat) : list (nat * N) :=
  match sched with
  | [] => []
  | t :: s => let c' := bump p c in (t, c') :: run_atomic p c' s
  end.

(* the identifiers returned to thread t, in call order *)
Definition ids_of_thread (p : uid_params) (evs : list (nat * N)) (t : nat) : list (list N) :=
  map (fun e => id_bytes p (snd e)) (filter (fun e => Nat.eqb (fst e) t) evs).

(* ---- fine model: explicit lock holder and program counter ---- *)
Inductive phase := P0 | P1 | P2 (local : N).     (* holding: before `+=`, after `+=`, after reading `*v` *)
Inductive holder := Free | Held (t : nat) (ph : phase).

Definition fine_step (p : uid_params) (t : nat) (st : N * holder) : (N * holder) * option (nat * N) :=
  let (c, h) := st in
  match h with
  | Free => ((c, Held t P0), None)                              (* lock() succeeds *)
  | Held t' ph =>
      if Nat.eqb t' t then
        match ph with
        | P0 => ((bump p c, Held t P1), None)                   (* *v += 1 *)
        | P1 => ((c, Held t (P2 c)), None)                      (* read *v *)
        | P2 v => ((c, Free), Some (t, v))                      (* guard dropped; the call returns v *)
        end
      else (st, None)                                           (* blocked in lock() *)
  end.

Fixpoint fine_run (p : uid_params) (st : N * holder) (sched : list nat) : list (nat * N) :=
  match sched with
  | [] => []
  | t :: s => let (st', e) := fine_step p t st in
              match e with Some ev => ev :: fine_run p st' s | None => fine_run p st' s end
  end.
