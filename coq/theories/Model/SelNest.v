(* Nesting of selectors: Selector::nest, Selector::resolve_ref / resolve_ref_in_pseudo,
   SelectorSet::resolve_ref, CssSelectorSet::nest with its round-robin merge (selector.rs,
   selectorset.rs, cssselectorset.rs, context.rs), CompoundSelector::append (print + re-parse,
   modelled structurally, see comp_append) and the part of CompoundSelector::unify that
   resolve_ref reaches (unify with the empty compound). *)
From Coq Require Import List NArith Bool.
From RV Require Import Base.Text Model.Sel Model.SelAlg.
Import ListNotations.
Import String.StringSyntax.
Local Open Scope string_scope.
Local Open Scope list_scope.

Inductive res (A : Type) : Type :=
| Ok (a : A)
| Fail                     (* the ParseError of CompoundSelector::append, reported as an error (dfe7d33) *)
| Unmodelled.              (* outside the structural model of print + re-parse *)
Arguments Ok {A} a.
Arguments Fail {A}.
Arguments Unmodelled {A}.

Definition res_bind {A B} (r : res A) (f : A -> res B) : res B :=
  match r with Ok a => f a | Fail => Fail | Unmodelled => Unmodelled end.

Fixpoint res_all {A} (l : list (res A)) : res (list A) :=
  match l with
  | [] => Ok []
  | r :: rest => res_bind r (fun a => res_bind (res_all rest) (fun l' => Ok (a :: l')))
  end.

(* ---------------- Selector::nest ---------------- *)
Fixpoint nest1 (self other : sel) : sel :=
  match other with
  | Sel orel oc =>
      if negb (is_local_empty self) || negb (is_none (s_rel self)) then
        Sel (match orel with
             | Some (kind, rel) =>
                 let rel' := nest1 self rel in
                 if is_local_empty rel' then
                   match s_rel rel' with
                   | Some (Ancestor, rr) => Some (kind, rr)
                   | Some (rk, rr) => Some (kind, Sel (Some (rk, rr)) comp0)
                   | None => None
                   end
                 else Some (kind, rel')
             | None => Some (Ancestor, self)
             end) oc
      else other
  end.

(* ---------------- has_backref ---------------- *)
Fixpoint hb_sel (s : sel) : bool :=
  match s with
  | Sel rel c => hb_comp c || match rel with Some (_, r) => hb_sel r | None => false end
  end
with hb_comp (c : compound) : bool :=
  match c with Comp b ps => b_backref b || existsb hb_pseudo ps end
with hb_pseudo (p : pseudo) : bool :=
  match p with
  | Pseudo _ _ (ArgSel l) => existsb hb_sel l
  | Pseudo _ _ _ => false
  end.

(* ---------------- the round-robin merge ---------------- *)
Definition heads {A} (parts : list (list A)) : list A :=
  flat_map (fun p => match p with x :: _ => [x] | [] => [] end) parts.
Definition tails {A} (parts : list (list A)) : list (list A) :=
  map (fun p => match p with _ :: r => r | [] => [] end) parts.
Fixpoint round_robin_f {A} (fuel : nat) (parts : list (list A)) : list A :=
  match fuel with
  | O => []
  | S f => match heads parts with
           | [] => []
           | h => h ++ round_robin_f f (tails parts)
           end
  end.
(* every pass removes one element from every non-empty part: the longest part bounds the passes *)
Definition round_robin {A} (parts : list (list A)) : list A :=
  round_robin_f (S (fold_right (fun p m => Nat.max (length p) m) O parts)) parts.

(* ---------------- CompoundSelector::append = write both, parse the text again ----------------
   Structural account of the re-parse, valid for names made of ASCII letters, digits, `-`, `_`
   (not starting with a digit) and pseudo arguments that print and parse back to themselves:
   the simple selectors of `other` follow those of `self`; a type-selector of `other` (the `-x`
   of `&-x`) is glued to the last thing `self` printed. *)
Definition name_char (c : N) : bool :=
  is_ascii_lower c || is_ascii_upper c || is_ascii_digit c || N.eqb c 45 || N.eqb c 95.
Definition plain_name (t : text) : bool :=
  match t with
  | [] => false
  | c :: _ => negb (is_ascii_digit c) && forallb name_char t
  end.

Definition set_last {A} (l : list A) (f : A -> A) : list A :=
  match rev l with
  | [] => []
  | x :: r => rev r ++ [f x]
  end.

(* what `self` prints for its element *)
Definition printed_elem (c : compound) : option text :=
  match c with
  | Comp b ps =>
      match b_elem b with
      | Some e => if negb (elem_is_any e) || (is_nil (b_classes b) && is_nil (b_phs b) && is_none (b_id b) && is_nil ps)
                  then Some e else None
      | None => None
      end
  end.

(* glue a type-selector suffix to the last printed simple selector of c *)
Definition glue_suffix (c : compound) (suf : text) : res compound :=
  match c with
  | Comp b ps =>
      if negb (plain_name suf) then Unmodelled
      else match rev ps with
      | Pseudo n e ArgNone :: _ =>
          Ok (Comp (mkBase false (printed_elem c) (b_phs b) (b_classes b) (b_id b) (b_attrs b))
                   (set_last ps (fun p => Pseudo (p_name p ++ suf) (p_el p) (p_arg p))))
      | Pseudo _ _ _ :: _ => Fail                 (* `)` followed by a name *)
      | [] =>
          match rev (b_attrs b) with
          | _ :: _ => Fail                        (* `]` followed by a name *)
          | [] =>
              match rev (b_classes b) with
              | _ :: _ => Ok (Comp (mkBase false (printed_elem c) (b_phs b) (set_last (b_classes b) (fun x => x ++ suf))
                                           (b_id b) []) [])
              | [] =>
                  match b_id b with
                  | Some i => Ok (Comp (mkBase false (printed_elem c) (b_phs b) [] (Some (i ++ suf)) []) [])
                  | None =>
                      match rev (b_phs b) with
                      | _ :: _ => Ok (Comp (mkBase false (printed_elem c) (set_last (b_phs b) (fun x => x ++ suf)) [] None []) [])
                      | [] =>
                          match b_elem b with
                          | Some e => if text_eqb e (str "*") then Fail        (* `*` followed by a name *)
                                      else if plain_name e then Ok (Comp (mkBase false (Some (e ++ suf)) [] [] None []) [])
                                      else Unmodelled
                          | None => Ok (Comp (mkBase false (Some suf) [] [] None []) [])
                          end
                      end
                  end
              end
          end
      end
  end.

Definition comp_append (self other : compound) : res compound :=
  match other with
  | Comp bo pso =>
      if b_backref (c_base self) || b_backref bo then Unmodelled else
      let start :=
        match b_elem bo with
        | None => Ok (Comp (mkBase false (printed_elem self) (b_phs (c_base self)) (b_classes (c_base self))
                                   (b_id (c_base self)) (b_attrs (c_base self))) (c_ps self))
        | Some suf =>
            if elem_is_any suf then Unmodelled else glue_suffix self suf
        end in
      res_bind start (fun c1 =>
        match c1 with
        | Comp b1 ps1 =>
            Ok (Comp (mkBase false (b_elem b1) (b_phs b1 ++ b_phs bo) (b_classes b1 ++ b_classes bo)
                             (match b_id bo with Some i => Some i | None => b_id b1 end)
                             (b_attrs b1 ++ b_attrs bo))
                     (ps1 ++ pso))
        end)
  end.

(* ---------------- CompoundSelector::default().unify(c) ---------------- *)
Fixpoint dedup_text (l : list text) (seen : list text) : list text :=
  match l with
  | [] => []
  | x :: r => if existsb (text_eqb x) seen then dedup_text r seen else x :: dedup_text r (seen ++ [x])
  end.

Definition unify_default (c : compound) : option compound :=
  match c with
  | Comp b ps =>
      let pe := find p_is_element ps in
      let ps' := filter (fun p => negb (p_is_element p)) ps ++ match pe with Some p => [p] | None => [] end in
      let classes := dedup_text (b_classes b) [] in
      if existsb p_is_host ps' && (existsb p_is_hover ps' || negb (is_none (b_elem b)) || negb (is_nil classes))
      then None
      else Some (Comp (mkBase false (b_elem b) (dedup_text (b_phs b) []) classes (b_id b) (b_attrs b)) ps')
  end.

(* Selector{rel_of: srel, compound: default}.unify(Selector{rel_of: None, compound: c}) *)
Definition unify_ctx (srel : option (relkind * sel)) (c : compound) : list sel :=
  match unify_default c with
  | None => []
  | Some c' =>
      match srel with
      | None => [Sel None c']
      | Some r => if comp_is_empty c' then [] else [Sel (Some r) c']
      end
  end.

(* put `rel` at the root of r's chain *)
Fixpoint attach_root (r : sel) (rel : relkind * sel) : sel :=
  match r with
  | Sel None c => Sel (Some rel) c
  | Sel (Some (k, r')) c => Sel (Some (k, attach_root r' rel)) c
  end.

(* ---------------- resolve_ref ---------------- *)
Section Resolve.
  Variable ctx : sels.           (* the backref context: a CssSelectorSet, no `&` inside *)

  Fixpoint rr_sel (s : sel) : res (list sel) :=
    match s with
    | Sel rel c =>
        res_bind (rr_comp c) (fun c' =>
        res_bind
          (match c' with
           | Comp b ps =>
               if b_backref b then
                 let c0 := Comp (mkBase false (b_elem b) (b_phs b) (b_classes b) (b_id b) (b_attrs b)) ps in
                 res_bind (res_all (map (fun s0 => res_bind (comp_append (s_comp s0) c0)
                                                     (fun a => Ok (unify_ctx (s_rel s0) a))) ctx))
                          (fun ll => Ok (concat ll))
               else Ok [Sel None c']
           end)
          (fun result =>
             match rel with
             | Some (k, r) =>
                 res_bind (rr_sel r) (fun rels =>
                   Ok (flat_map (fun rl => map (fun r0 => attach_root r0 (k, rl)) result) rels))
             | None => Ok result
             end))
    end
  (* resolve_ref_in_pseudo on one compound *)
  with rr_comp (c : compound) : res compound :=
    match c with
    | Comp b ps => res_bind (res_all (map rr_pseudo ps)) (fun ps' => Ok (Comp b ps'))
    end
  with rr_pseudo (p : pseudo) : res pseudo :=
    match p with
    | Pseudo n e (ArgSel l) =>
        res_bind (res_all (map rr_sel l)) (fun parts => Ok (Pseudo n e (ArgSel (round_robin parts))))
    | Pseudo _ _ _ => Ok p
    end.

  (* SelectorSet::resolve_ref *)
  Definition rr_sels (l : sels) : res sels :=
    res_bind (res_all (map rr_sel l)) (fun parts => Ok (round_robin parts)).
End Resolve.

(* ---------------- CssSelectorSet::nest(self, other, backref) ---------------- *)
Definition nest_set (self other ctx : sels) : res sels :=
  res_bind
    (res_all (map (fun o => if hb_sel o then rr_sel ctx o else Ok (map (fun s => nest1 s o) self)) other))
    (fun parts => Ok (round_robin parts)).

(* SelectorCtx: the emitted selector of rule `inner` nested in the rule whose resolved selector is `outer`
   (outer = [sel0] at the top level, where the backref context is the root as well) *)
Definition nest_rule (outer inner : sels) : res sels := nest_set outer inner outer.

(* levels = selector lists of the nested rules from the outside in *)
Fixpoint nest_levels (cur : sels) (levels : list sels) : res sels :=
  match levels with
  | [] => Ok cur
  | l :: rest => res_bind (nest_rule cur l) (fun cur' => nest_levels cur' rest)
  end.
