(* C25 - Selector parsing and printing round-trip (PARTIAL: name level).
   Property theorems only; proofs live in Proofs/C25.v.  norm_name is the model of css_string_nohash with its
   escape normalisation (what the parser stores for a name), fmt_class the class printer of write_to.
   The whole-list round trip is NOT proved (no structural parser in the model): it is checked per case on the
   implementation's output by Run.C25 (text fixpoint, mutual is-superselector, emitted text). *)
From Coq Require Import List NArith Bool.
From RV Require Import Base.Text Model.Sel Model.SelFmt Model.SelParse Run.C25 Proofs.C25.
Import ListNotations.
Local Open Scope list_scope.

(* every name made of plain characters (ASCII alphanumerics, `-`, `_`, non-ASCII bytes) is stored and printed
   as written, so printing and parsing it again is the identity *)
Theorem C25_plain_names_fixed_partial : forall n, n <> [] -> forallb plain_byte n = true -> norm_name n = Some n.
Proof. exact plain_names_fixed. Qed.
Print Assumptions C25_plain_names_fixed_partial.

(* every escaped ASCII character: the stored (normalised) token parses back to itself, in first and in later
   position, alone and in front of `a` (a hex digit), `1`, `x`, `-`: exhaustive over the 128 x 5 combinations *)
Theorem C25_escape_tokens_roundtrip_ascii_partial : forall c fol, (c < 128)%N -> In fol followers ->
  norm_name (norm_first c ++ fol) = Some (norm_first c ++ fol)
  /\ norm_name (120%N :: norm_next c ++ fol) = Some (120%N :: norm_next c ++ fol).
Proof. exact escape_tokens_roundtrip. Qed.
Print Assumptions C25_escape_tokens_roundtrip_ascii_partial.

(* a class starting with a digit is printed with the digit escaped, and that spelling is a fixpoint *)
Theorem C25_printed_class_reparses_partial : forall d rest,
  is_ascii_digit d = true -> forallb plain_byte rest = true ->
  fmt_class (d :: rest) = 92%N :: hex_of_N d ++ [32%N] ++ rest
  /\ norm_name (fmt_class (d :: rest)) = Some (fmt_class (d :: rest)).
Proof. exact printed_digit_class. Qed.
Print Assumptions C25_printed_class_reparses_partial.

(* ... but it is a different name than the one parsed from the source: the statement is false for `.1x` *)
Definition C25_statement_names : Prop :=
  forall n n', norm_name n = Some n' -> norm_name (fmt_class n') = Some n'.
Theorem C25_refuted_digit_class :
  let n := [49%N; 120%N] in
  norm_name n = Some n /\ fmt_class n = [92%N; 51%N; 49%N; 32%N; 120%N]
  /\ norm_name (fmt_class n) = Some (fmt_class n) /\ fmt_class n <> n.
Proof. exact refuted_digit_class. Qed.
Print Assumptions C25_refuted_digit_class.

Example C25_hyps_sat :
  [97%N; 45%N; 98%N] <> [] /\ forallb plain_byte [97%N; 45%N; 98%N] = true /\ (64 < 128)%N /\ In [97%N] followers
  /\ is_ascii_digit 49 = true.
Proof. repeat split; try discriminate; try reflexivity. right; left; reflexivity. Qed.
