(* C01 - Compilation never panics or aborts.  PARTIAL: the parser and the stack are
   not modelled; what is proved is the panic-site ledger and the site lemmas. *)
From Coq Require Import String List ZArith NArith Bool.
From RV Require Import Gen.PanicSites Model.PanicLedger Model.Indent Run.C01 Proofs.C01.

(* full statement, kept visible: for every input within the bounds the outcome is ok or err *)
Definition C01_statement : Prop :=
  forall (outcome_of : list N -> Z) (src : list N), p_holds (outcome_of src) = true.

(* every potential panic site of the CURRENT tree is a reviewed, classified site *)
Theorem C01_ledger_complete : forall s, In s panic_sites -> classified s = true.
Proof. exact every_site_classified. Qed.
Print Assumptions C01_ledger_complete.

Theorem C01_indent_shape : get_indent_shape_ok = true /\ indent_is_nl_spaces = true.
Proof. exact indent_shape. Qed.
Print Assumptions C01_indent_shape.

(* since the fix of F1 the indentation site cannot panic, for every length and style *)
Theorem C01_sites_partial_indent : forall c len, get_indent c len <> IndentPanic.
Proof. exact indent_safe. Qed.
Print Assumptions C01_sites_partial_indent.

Theorem C01_indent_bounded : forall c len n, get_indent c len = IndentOk n -> (n <= indent_static_len)%N.
Proof. exact indent_bounded. Qed.
Print Assumptions C01_indent_bounded.

Theorem C01_indent_exact_inside : forall len, (len < indent_static_len)%N -> get_indent false len = IndentOk (len + 1).
Proof. exact indent_exact_inside. Qed.
Print Assumptions C01_indent_exact_inside.

Theorem C01_sites_partial_nesting : forall c d, model_outcome (mkCase 1 c d 0) = Some 0%Z.
Proof. exact nesting_safe. Qed.
Print Assumptions C01_sites_partial_nesting.

Example C01_nonvacuous : (2 * 10 + 2 < indent_static_len)%N.
Proof. vm_compute. reflexivity. Qed.
