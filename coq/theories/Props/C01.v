(* C01 - Compilation never panics or aborts.  PARTIAL: the parser and the stack are
   not modelled; what is proved is the panic-site ledger and the site lemmas. *)
From Coq Require Import String List ZArith NArith Bool.
From RV Require Import Gen.PanicSites Gen.SiteShapes Model.PanicLedger Model.Indent Model.PanicSitesModels Run.C01 Proofs.C01 Proofs.C01Sites.

(* full statement, kept visible: for every input within the bounds the outcome is ok or err *)
Definition C01_statement : Prop :=
  forall (outcome_of : list N -> Z) (src : list N), p_holds (outcome_of src) = true.

(* every potential panic site of the CURRENT tree is a reviewed, classified site *)
Theorem C01_ledger_complete : forall s, In s panic_sites -> classified s = true.
Proof. exact every_site_classified. Qed.
Print Assumptions C01_ledger_complete.

Theorem C01_indent_shape : get_indent_shape_ok = true /\ indent_is_nl_spaces = true.
Proof. exact indent_shape. Qed.
Print Assumptions C01_indent_shape.

(* since the fix of F1 the indentation site cannot panic, for every length and style *)
Theorem C01_sites_partial_indent : forall c len, get_indent c len <> IndentPanic.
Proof. exact indent_safe. Qed.
Print Assumptions C01_sites_partial_indent.

Theorem C01_indent_bounded : forall c len n, get_indent c len = IndentOk n -> (n <= indent_static_len)%N.
Proof. exact indent_bounded. Qed.
Print Assumptions C01_indent_bounded.

Theorem C01_indent_exact_inside : forall len, (len < indent_static_len)%N -> get_indent false len = IndentOk (len + 1).
Proof. exact indent_exact_inside. Qed.
Print Assumptions C01_indent_exact_inside.

Theorem C01_sites_partial_nesting : forall c d, model_outcome (mkCase 1 c d 0) = Some 0%Z.
Proof. exact nesting_safe. Qed.
Print Assumptions C01_sites_partial_nesting.

(* ---- site lemmas (Model/PanicSitesModels.v): the Panic branch of the modelled index / slice / arithmetic logic is
   unreachable for ALL inputs; hypotheses = what the Rust types or the callers guarantee (i64 range of a Sass integer,
   Vec/str lengths <= isize::MAX, str::find returning a char boundary, the keyword preceding a declaration position) ---- *)

(* the modelled functions still have the text the models were written against *)
Theorem C01_site_texts_current : site_texts_current = true.
Proof. exact site_texts_current_ok. Qed.
Print Assumptions C01_site_texts_current.

Theorem C01_site_index_of : forall n len, is_i64 n -> is_len len ->
  index_of n len <> Panic /\ (forall i, index_of n len = Ok i -> (0 <= i < len)%Z).
Proof. exact index_of_spec. Qed.
Print Assumptions C01_site_index_of.

Theorem C01_site_nth_list : forall n len, is_i64 n -> is_len len -> nth_list n len <> Panic.
Proof. exact nth_list_safe. Qed.
Print Assumptions C01_site_nth_list.

Theorem C01_site_nth_arglist : forall n pos named, is_i64 n -> is_len pos -> is_len named -> (pos + named <= ISIZE_MAX)%Z ->
  nth_arglist n pos named <> Panic.
Proof. exact nth_arglist_safe. Qed.
Print Assumptions C01_site_nth_arglist.

Theorem C01_site_index_map_pair : forall len, index_map_pair len <> Panic.
Proof. exact index_map_pair_safe. Qed.
Print Assumptions C01_site_index_map_pair.

Theorem C01_site_enumerate_plus_one : forall i len, is_len len -> (0 <= i < len)%Z -> enumerate_plus_one i <> Panic.
Proof. exact enumerate_plus_one_safe. Qed.
Print Assumptions C01_site_enumerate_plus_one.

Theorem C01_site_zip_access : forall lens i, zip_access lens i <> Panic.
Proof. exact zip_access_safe. Qed.
Print Assumptions C01_site_zip_access.

Theorem C01_site_insert_index : forall index len, is_i64 index -> insert_index index len <> Panic.
Proof. exact insert_index_safe. Qed.
Print Assumptions C01_site_insert_index.

Theorem C01_site_slice_start : forall start_at len, is_i64 start_at -> slice_start start_at len <> Panic.
Proof. exact slice_start_safe. Qed.
Print Assumptions C01_site_slice_start.

Theorem C01_site_slice_end : forall end_at len, is_i64 end_at -> slice_end end_at len <> Panic.
Proof. exact slice_end_safe. Qed.
Print Assumptions C01_site_slice_end.

Theorem C01_site_str_index : forall len i count, is_len len -> (0 <= i <= len)%Z -> (0 <= count <= len)%Z ->
  str_index_site len i count true <> Panic.
Proof. exact str_index_site_safe. Qed.
Print Assumptions C01_site_str_index.

Theorem C01_site_deep_remove : forall len inner, deep_remove len inner <> Panic.
Proof. exact deep_remove_safe. Qed.
Print Assumptions C01_site_deep_remove.

Theorem C01_site_guarded_index : forall len k j, (0 <= j < k)%Z -> guarded_index len k j <> Panic.
Proof. exact guarded_index_safe. Qed.
Print Assumptions C01_site_guarded_index.

Theorem C01_site_conv_names : forall w, (0 <= w <= 2)%Z -> conv_names w <> Panic.
Proof. exact conv_names_safe. Qed.
Print Assumptions C01_site_conv_names.

Theorem C01_site_slice_full : forall len, (0 <= len)%Z -> slice_full len <> Panic.
Proof. exact slice_full_safe. Qed.
Print Assumptions C01_site_slice_full.

Theorem C01_site_do_indent_no_nl : forall c indent, do_indent_no_nl c indent <> Panic.
Proof. exact do_indent_no_nl_safe. Qed.
Print Assumptions C01_site_do_indent_no_nl.

Theorem C01_site_call_args_len : forall pos named, is_len pos -> is_len named -> call_args_len pos named <> Panic.
Proof. exact call_args_len_safe. Qed.
Print Assumptions C01_site_call_args_len.

(* SourcePos::opt_back(s) is safe when at least s.len() bytes precede the position, which its five callers
   establish syntactically ("@function " / "@mixin " / "$" / "module." has just been parsed before it);
   without that the subtraction underflows (second part) *)
Theorem C01_site_opt_back : (forall start len m, is_len start -> (0 <= len <= start)%Z -> opt_back start len m <> Panic)
  /\ opt_back 3 10 false = Panic.
Proof. split; [exact opt_back_safe|exact opt_back_needs_invariant]. Qed.
Print Assumptions C01_site_opt_back.

Example C01_nonvacuous : (2 * 10 + 2 < indent_static_len)%N.
Proof. vm_compute. reflexivity. Qed.
