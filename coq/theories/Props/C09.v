(* C09 - rsass's own CSS output reads back as the same stylesheet.  Theorems only.
   What is proved is the leaf the statement singles out: Display of a quoted
   CssString (css/string.rs, model Model/CssStr.v) against the quoted-string
   reader of the plain-CSS parser (parser/css/strings.rs, model Model/CssRead.v).
   The stylesheet-level round trip is decided on generated stylesheets only. *)
From Coq Require Import List NArith Bool.
From RV Require Import Base.Text Model.CssStr Model.CssRead Proofs.C09.
Import ListNotations.
Local Open Scope N_scope.

(* for ALL code-point lists without the string's own quote character, in either
   quoting: printing, reading back and printing again gives the same text, and the
   reader consumes exactly the string *)
Theorem C09_strings_partial : forall k v, k <> QNone -> lacks (qchar k) v = true ->
  reprint (mkStr v k) = Some (css_display (mkStr v k), []).
Proof. exact roundtrip. Qed.
Print Assumptions C09_strings_partial.

(* what Display writes for such a string has no quote character inside: the reader's
   `is_not(quote)` run is the whole body *)
Theorem C09_body_has_no_quote : forall q v, (q = 34 \/ q = 39) -> lacks q v = true ->
  lacks q (flat_map (display_char (Some q)) v) = true.
Proof. intros q v Hq Hv. apply plain_lacks, body_plain; assumption. Qed.
Print Assumptions C09_body_has_no_quote.

(* the same through the value parser, which re-quotes with pref_dquotes: a double
   quoted string without `"`, and a single quoted string with `"` and without `'`
   (the two forms rsass prints), read back to the same text *)
Theorem C09_strings_value_partial : forall v,
  (lacks 34 v = true -> reprint_value (mkStr v QDouble) = Some (css_display (mkStr v QDouble), []))
  /\ (lacks 39 v = true -> contains 34 v = true ->
      reprint_value (mkStr v QSingle) = Some (css_display (mkStr v QSingle), [])).
Proof. intros v. split; [apply roundtrip_value_dq | apply roundtrip_value_sq]. Qed.
Print Assumptions C09_strings_value_partial.

(* F12: the string a, double quote, b - printed with the quote escaped - is read back as
   `a\` followed by garbage: the full statement is false *)
Theorem C09_refuted_escaped_quote : exists v,
  reprint (mkStr v QDouble) <> Some (css_display (mkStr v QDouble), []).
Proof. exists [97;34;98]. rewrite refuted_quote. discriminate. Qed.
Print Assumptions C09_refuted_escaped_quote.

Example hyp_ok : QDouble <> QNone /\ lacks (qchar QDouble) [97;39;233;128512;57344;92] = true.
Proof. split; [discriminate | reflexivity]. Qed.
