(* C09 - rsass's own CSS output reads back as the same stylesheet.  Theorems only.
   What is proved is the leaf the statement singles out (for the reader of rsass 4637bd2): Display of a quoted
   CssString (css/string.rs, model display_q in Model/CssRead.v) against the quoted-string
   reader of the plain-CSS parser (parser/css/strings.rs, model Model/CssRead.v).
   The stylesheet-level round trip is decided on generated stylesheets only. *)
From Coq Require Import List NArith Bool.
From RV Require Import Base.Text Model.CssStr Model.CssRead Proofs.C09.
Import ListNotations.
Local Open Scope N_scope.

(* for ALL code-point lists without backslash and private-use characters - the string's own
   quote character INCLUDED, any number of times - and either quoting: printing, reading back
   and printing again gives the same text, and the reader consumes exactly the string *)
Theorem C09_strings_roundtrip : forall k v, k <> QNone -> forallb simple v = true ->
  reprint (mkStr v k) = Some (display_q (mkStr v k), []).
Proof. exact roundtrip. Qed.
Print Assumptions C09_strings_roundtrip.

(* the same through the value parser, which re-quotes with pref_dquotes, for the quoting
   rsass itself chooses (pref_dquotes is idempotent on it) *)
Theorem C09_strings_value_roundtrip : forall k v, k <> QNone -> forallb simple v = true ->
  pref_dquotes (mkStr v k) = mkStr v k ->
  reprint_value (mkStr v k) = Some (display_q (mkStr v k), []).
Proof. exact roundtrip_value. Qed.
Print Assumptions C09_strings_value_roundtrip.

(* the reader inverts Display on the body of such a string, whatever follows the closing quote *)
Theorem C09_reader_inverts_display : forall q v rest, (q = 34 \/ q = 39) -> forallb simple v = true ->
  read_body q (disp_body q v ++ q :: rest) = Some (v, rest).
Proof. exact read_display. Qed.
Print Assumptions C09_reader_inverts_display.

(* the former F12 witness reads back (rsass 4637bd2) *)
Theorem C09_escaped_quote_reads_back :
  reprint_value (mkStr [97;34;98;39;99] QDouble) = Some (display_q (mkStr [97;34;98;39;99] QDouble), []).
Proof. exact escaped_quote_reads_back. Qed.
Print Assumptions C09_escaped_quote_reads_back.

Example hyp_ok : QDouble <> QNone /\ forallb simple [97;34;39;233;128512] = true
  /\ pref_dquotes (mkStr [97;34;39] QDouble) = mkStr [97;34;39] QDouble.
Proof. repeat split; try discriminate; reflexivity. Qed.
