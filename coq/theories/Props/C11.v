(* C11 - Unit arithmetic converts only with fixed CSS ratios.
   Property theorems only; proofs live in Proofs/C11.v. *)
From Coq Require Import String List ZArith Bool.
From RV Require Import Base.F64 Gen.Units Model.Units Model.Numeric Spec.CssUnits Run.C11 Proofs.C11.
Import ListNotations.

(* the tables extracted from unit.rs / parser/unit.rs are complete and evaluate *)
Theorem C11_tables_wf : tables_wf = true.
Proof. exact tables_wf_ok. Qed.
Print Assumptions C11_tables_wf.

Theorem C11_scale_to_shape : scale_to_shape_ok = true.
Proof. exact scale_to_shape. Qed.
Print Assumptions C11_scale_to_shape.

(* the code's units are exactly the CSS table's units *)
Theorem C11_units_cover :
  forallb (fun u => is_known_unit (disp u)) real_units = true
  /\ forallb (fun n => existsb (fun u => String.eqb (disp u) n) real_units)
       (map fst css_units ++ css_lone_units) = true.
Proof. exact units_cover. Qed.
Print Assumptions C11_units_cover.

(* two units convert exactly when CSS puts them in one group (no exception since the fix of F15) *)
Theorem C11_groups : forall u v, In u real_units -> In v real_units ->
  convertible u v = same_group (disp u) (disp v).
Proof. exact groups. Qed.
Print Assumptions C11_groups.

Theorem C11_lone_units_do_not_convert :
  convertible (UK "Em") (UK "Ex") = false /\ convertible (UK "Em") (UK "Ch") = false
  /\ convertible (UK "Vmin") (UK "Vmax") = false /\ convertible (UK "Percent") (UK "Fr") = false
  /\ convertible (UK "Fr") (UK "Percent") = false.
Proof. exact lone_units_do_not_convert. Qed.
Print Assumptions C11_lone_units_do_not_convert.

(* inside a CSS group the binary64 factor used is the CSS ratio to 1e-15 *)
Theorem C11_ratios : forall u v, In u real_units -> In v real_units -> ratio_ok u v = true.
Proof. exact ratios. Qed.
Print Assumptions C11_ratios.

(* a unitless operand takes the other operand's unit: all magnitudes, all unit sets *)
Theorem C11_unitless_plus : forall a b s,
  eval_nop OPlus (mkNum a s) (mkNum b []) = RNum (mkNum (fadd a b) s)
  /\ (us_is_none s = false -> eval_nop OPlus (mkNum a []) (mkNum b s) = RNum (mkNum (fadd a b) s)).
Proof. intros; split; [apply unitless_plus_r | apply unitless_plus_l]. Qed.
Print Assumptions C11_unitless_plus.

Theorem C11_unitless_minus : forall a b s,
  eval_nop OMinus (mkNum a s) (mkNum b []) = RNum (mkNum (fsub a b) s)
  /\ (us_is_none s = false -> eval_nop OMinus (mkNum a []) (mkNum b s) = RNum (mkNum (fsub a b) s)).
Proof. intros; split; [apply unitless_minus_r | apply unitless_minus_l]. Qed.
Print Assumptions C11_unitless_minus.

Theorem C11_same_unit_plus : forall a b s,
  eval_nop OPlus (mkNum a s) (mkNum b s) = RNum (mkNum (fadd a b) s).
Proof. exact same_unit_plus. Qed.
Print Assumptions C11_same_unit_plus.

(* two different units: the sum is a number only through the table ratio, b scaled into a's unit *)
Theorem C11_plus_two_units : forall a b u v,
  is_unit_none u = false -> is_unit_none v = false -> unit_eqb u v = false ->
  eval_nop OPlus (mkNum a (us_of_unit u)) (mkNum b (us_of_unit v)) =
  match unit_scale_to v u with
  | Some f => RNum (mkNum (fadd a (fmul b f)) (us_of_unit u))
  | None => RKept
  end.
Proof. exact plus_two_units. Qed.
Print Assumptions C11_plus_two_units.

(* no conversion is ever invented for a pair the table does not relate
   (the statement asks for an error here: known finding F16, the value is kept verbatim) *)
Theorem C11_incompatible_kept : forall a b u v,
  is_unit_none u = false -> is_unit_none v = false -> unit_eqb u v = false ->
  convertible v u = false ->
  eval_nop OPlus (mkNum a (us_of_unit u)) (mkNum b (us_of_unit v)) = RKept.
Proof. exact incompatible_kept. Qed.
Print Assumptions C11_incompatible_kept.

Theorem C11_mul_div_exponents : forall a b u v,
  is_unit_none u = false -> is_unit_none v = false -> unit_eqb u v = false ->
  unit_scale_to v u = None ->
  numeric_mul (mkNum a (us_of_unit u)) (mkNum b (us_of_unit v))
    = Some (mkNum (fmul (fmul a b) f_one) [(u, 1%Z); (v, 1%Z)])
  /\ numeric_div (mkNum a (us_of_unit u)) (mkNum b (us_of_unit v))
    = Some (mkNum (fmul (fdiv a b) f_one) [(u, 1%Z); (v, (-1)%Z)]).
Proof. exact mul_div_exponents. Qed.
Print Assumptions C11_mul_div_exponents.

Theorem C11_div_same_unit : forall a b u, is_unit_none u = false ->
  numeric_div (mkNum a (us_of_unit u)) (mkNum b (us_of_unit u))
    = Some (mkNum (fmul (fdiv a b) f_one) []).
Proof. exact div_same_unit. Qed.
Print Assumptions C11_div_same_unit.

(* non-vacuity: concrete units meeting the hypotheses *)
Example C11_nonvacuous :
  In (UK "Px") real_units /\ In (UK "In") real_units
  /\ convertible (UK "Px") (UK "In") = true
  /\ is_unit_none (UK "Px") = false /\ unit_eqb (UK "Px") (UK "S") = false
  /\ convertible (UK "S") (UK "Px") = false.
Proof. vm_compute. repeat split; auto 40. Qed.
