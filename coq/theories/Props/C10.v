(* C10 - Numbers are printed as correctly rounded decimals.
   Property theorems only; proofs live in Proofs/C10.v.
   "every double" below means every x : binary64 (Flocq); the model function
   fmt_number is the one compared byte for byte with Number::format on each run.
   Theorems that need facts about the VALUES of float products take the
   digit-range contract b_contract as a hypothesis (it is satisfiable, see
   C10_contract_satisfiable, and validated for binary64 by the correspondence
   check; it is not proved for Flocq here). *)
From Coq Require Import ZArith List Bool NArith.
From RV Require Import Base.F64 Base.Text Model.NumFmt Spec.DecRound Proofs.C10.
Import ListNotations.
Local Open Scope Z_scope.

(* every double, every precision >= 1: at most `precision` fractional digits *)
Theorem C10_fraction_len : forall prec x, 1 <= prec -> Z.of_nat (length (dec_of prec x)) <= prec.
Proof. exact fraction_len. Qed.
Print Assumptions C10_fraction_len.

(* F13: the statement for precision 0 is false (1.26 -> "1.3") *)
Theorem C10_refuted_precision0 :
  ~ fraclen_statement /\
  exists x, f_is_finite x = true /\ dec_of 0 x = [3] /\ fmt_number false 0 x = [49; 46; 51]%N.
Proof. split; [exact fraclen_statement_false|exact refuted_precision0]. Qed.
Print Assumptions C10_refuted_precision0.

(* every double whose integer part has k <= 15 digits and is not a power of ten:
   integer digits + fractional digits <= 16; integer part 0: at most 16 places *)
Theorem C10_sig16 : forall prec x,
  (forall k, 1 <= k <= 15 -> 10 ^ (k - 1) < whole_of x < 10 ^ k ->
     Z.of_nat (length (dec_of prec x)) + k <= 16) /\
  (whole_of x = 0 -> Z.of_nat (length (dec_of prec x)) <= 16).
Proof. intros; split; [intros k; apply sig16|apply sig16_zero]. Qed.
Print Assumptions C10_sig16.

(* F14: integer part 10^k gives 17 significant digits *)
Theorem C10_refuted_pow10 : exists prec x, f_is_finite x = true /\ is_pow10 (whole_of x) = true /\
  ndigits (whole_out prec x) + Z.of_nat (length (dec_of prec x)) = 17.
Proof. exact refuted_pow10. Qed.
Print Assumptions C10_refuted_pow10.

Theorem C10_refuted_1e15 : exists prec x, f_is_finite x = true /\ 10 ^ 15 <= whole_of x /\
  ndigits (whole_out prec x) + Z.of_nat (length (dec_of prec x)) = 17.
Proof. exact refuted_1e15. Qed.
Print Assumptions C10_refuted_1e15.

(* every finite double: text = [-] integer-digits [. fraction]; the sign is printed only
   for a negative value whose printed magnitude is not zero; compressed style drops
   exactly a lone 0 before a fraction (definition of render) *)
Theorem C10_syntax : forall compressed prec x, f_is_finite x = true ->
  fmt_number compressed prec x =
    render compressed (neg_of prec x) (display_whole x (whole_out prec x)) (dec_of prec x)
  /\ (neg_of prec x = true -> f_sign_neg x = true /\ (whole_out prec x <> 0 \/ dec_of prec x <> []))
  /\ 0 <= whole_out prec x
  /\ (whole_out prec x <> whole_of x -> dec_of prec x = []).
Proof.
  intros c prec x H. split; [apply fmt_layout; exact H|]. split; [apply no_negative_zero|].
  split; [apply whole_out_nonneg|].
  intros Hne. unfold whole_out, dec_of in *. rewrite fmt_parts_eq in *. cbn [fst snd] in *.
  destruct (snd (b_frac_part _ _ _)) eqn:E; [|congruence].
  apply (frac_part_carry f64 b_mul10 ffract b_is0 b_digit b_enddigit). exact E.
Qed.
Print Assumptions C10_syntax.

(* under the digit-range contract: fractional digits are 0..9 and the last is not 0 *)
Theorem C10_no_trailing_zero : b_contract -> forall prec x, f_is_finite x = true ->
  Forall isdigit (dec_of prec x) /\ head_nonzero (rev (dec_of prec x)).
Proof. exact fraction_digits. Qed.
Print Assumptions C10_no_trailing_zero.

(* under the contract the text is a plain decimal numeral for the reference parser
   (no exponent, nothing but an optional sign, digits and one point) *)
Theorem C10_render_parses : b_contract -> forall compressed prec x, f_is_finite x = true ->
  parse_numeral (fmt_number compressed prec x) =
  Some (mkNumeral (neg_of prec x)
          (shown_whole compressed (display_whole x (whole_out prec x)) (dec_of prec x))
          (dec_of prec x)).
Proof. exact text_parses. Qed.
Print Assumptions C10_render_parses.

Theorem C10_nonfinite : forall compressed prec x,
  (f_is_nan x = true -> fmt_number compressed prec x = txt_nan) /\
  (f_is_inf x = true -> fmt_number compressed prec x =
     (if f_sign_neg x then [45%N] else []) ++ txt_infinity).
Proof. exact nonfinite_text. Qed.
Print Assumptions C10_nonfinite.

Theorem C10_calc_wrap : forall compressed prec x,
  fmt_css_unitless compressed prec x =
  if f_is_finite x then fmt_number compressed prec x
  else [99; 97; 108; 99; 40]%N ++ fmt_number compressed prec x ++ [41%N].
Proof. exact calc_wrap. Qed.
Print Assumptions C10_calc_wrap.

(* integer part: decimal digits, never empty; exact digits have no leading zero *)
Theorem C10_whole_digits :
  (forall x w, 0 <= w -> Forall isdigit (display_whole x w) /\ display_whole x w <> []) /\
  (forall z, 0 <= z -> Forall isdigit (digits_of z) /\ digits_of z <> [] /\ (0 < z -> hd 0 (digits_of z) <> 0)).
Proof. split; [exact display_whole_ok|exact digits_of_ok]. Qed.
Print Assumptions C10_whole_digits.

(* PARTIAL rounding accuracy: only doubles without a fractional part (printed exactly, no
   fraction, any precision).  For doubles with a fraction the accuracy of the digit loop is
   NOT proved; it is decided on explored inputs against Spec/DecRound.v, where it fails in the
   class K4 (value within 2^-52 of a decimal tie). *)
Theorem C10_round_partial : forall compressed prec x, f_is_finite x = true -> b_is0 (ffract x) = true ->
  dec_of prec x = [] /\ whole_out prec x = whole_of x /\
  (whole_of x < 2 ^ 53 ->
   fmt_number compressed prec x =
   render compressed (f_sign_neg x && negb (whole_of x =? 0)) (digits_of (whole_of x)) []).
Proof. exact round_integers. Qed.
Print Assumptions C10_round_partial.

(* the contract is satisfiable (exact decimal arithmetic), and the hypotheses above are inhabited *)
Example C10_contract_satisfiable :
  prims_ok Z (fun n => 10 * n) (fun n => n mod 1000) (fun n => n =? 0)
           (fun n => n / 1000) (fun n => (n + 500) / 1000) (fun n => 0 < n < 1000).
Proof. exact exact_prims_ok. Qed.
Example C10_nonvacuous :
  f_is_finite (of_bits 4608353354703133737) = true /\ b_is0 (ffract (of_bits 4611686018427387904)) = true
  /\ 10 ^ (2 - 1) < whole_of (of_bits 4631178160564600832) < 10 ^ 2.
Proof. vm_compute. repeat split; auto. Qed.
