(* C40 - The command-line tool mirrors the library.  Theorems only; proofs in Proofs/C40.v.
   cli_run_body / cli_main_* / cli_style_map / cli_args are regenerated from rsass-cli/src/main.rs on every check;
   `lib` is an arbitrary interpretation of every library function and method. *)
From Coq Require Import String List Bool.
From RV Require Import Gen.Entry Model.Entry Spec.EntryDocs Proofs.C40.
Import ListNotations.
Local Open Scope string_scope.

(* Args::run, executed symbolically, IS the documented loop: for each input in order for_path, push_path of the
   load path if one was given, with_format(Format{style.into(), precision}), transform, write; the first error is
   returned at once and what was written before it stays written.  All libraries, all argument values, any number of files. *)
Theorem C40_run : forall lib style precision lp names r,
  (lp = VNone \/ exists q, lp = VSome q) ->
  doc_cli_run lib (doc_cli_format lib style precision) lp names [] = Some r ->
  run_body lib cli_run_body cli_run_params [selfv style precision lp names] = Some r.
Proof. exact cli_run_spec. Qed.
Print Assumptions C40_run.

(* stdout is the concatenation of the library outputs of the files before the first failure *)
Theorem C40_stdout : forall lib f lp names w res out,
  doc_cli_run lib f lp names w = Some (res, out) -> out = (w ++ ok_prefix lib f lp names)%list.
Proof. exact run_stdout. Qed.
Print Assumptions C40_stdout.

(* the result is Ok(()) exactly when every file compiles, otherwise it is an error *)
Theorem C40_status : forall lib f lp names w res out,
  doc_cli_run lib f lp names w = Some (res, out) ->
  (res = VOk VUnit <-> Forall (fun n => exists b, doc_cli_compile1 lib f lp n = Some (VOk b)) names)
  /\ (res <> VOk VUnit -> exists e, res = VErr e).
Proof. exact run_status. Qed.
Print Assumptions C40_status.

(* main(): Ok(()) -> ExitCode::SUCCESS; Err(err) -> eprintln!("Error: {err}"), ExitCode::FAILURE *)
Theorem C40_main_shape :
  cli_main_scrutinee = RMeth (RCall "Args::parse" []) "run" []
  /\ cli_main_arms = [("Ok ( ( ) )", ([], Some (RConst "ExitCode::SUCCESS")));
                      ("Err ( err )", ([SExpr (RCall "eprintln!" [RStr "Error: {err}"])], Some (RConst "ExitCode::FAILURE")))].
Proof. split; reflexivity. Qed.
Print Assumptions C40_main_shape.

(* --style maps each StyleArg to the Style of the same name; --precision is a usize defaulting to 5,
   --load-path / -I a single optional path, at least one input *)
Theorem C40_style_map : forall p, In p cli_style_map -> fst p = snd p.
Proof. exact style_map_id. Qed.
Print Assumptions C40_style_map.

Theorem C40_args_shape :
  assoc_s "precision" cli_args = Some ("usize", "arg ( long , default_value = ""5"" )")
  /\ assoc_s "style" cli_args = Some ("StyleArg", "arg ( long , short = 't' , value_enum , default_value_t = StyleArg :: Expanded )")
  /\ assoc_s "load_path" cli_args = Some ("Option < PathBuf >", "arg ( long , short = 'I' )")
  /\ assoc_s "input" cli_args = Some ("Vec < PathBuf >", "arg ( required = true )")
  /\ map fst cli_style_map = ["Expanded"; "Compressed"].
Proof. repeat split; reflexivity. Qed.
Print Assumptions C40_args_shape.

Example C40_nonvacuous :
  let lib := fun (f : string) (args : list val) =>
    if String.eqb f "FsContext::for_path" then VOk (VTuple [VAbs 1; VAbs 2])
    else if String.eqb f "transform" then VOk (VAbs 7) else VApp f args in
  doc_cli_run lib (VAbs 9) VNone [VAbs 0; VAbs 0] [] = Some (VOk VUnit, [VAbs 7; VAbs 7]).
Proof. reflexivity. Qed.
