(* C27 - Strings keep their content through escaping and quoting.  Theorems only.
   PARTIAL: the positive theorems cover every literal of the escape-free class
   (any length, any code points except backslash, hash, quotes, line breaks and
   private-use characters); for literals with escapes the statement is false in
   the ways witnessed below, and the model is tied to rsass by correspondence only.
   Missing for a full result: a proof that decode (display (store lit)) = decode lit
   outside the refuted classes, single-quoted literals and interpolation. *)
From Coq Require Import String List NArith ZArith Bool.
From RV Require Import Base.Text Base.ListX Model.CssStr Model.StrEsc Spec.CssEsc Run.C27 Proofs.C27.
Import ListNotations.
Local Open Scope N_scope.
Local Open Scope list_scope.

(* the full statement, on the model *)
Definition C27_statement : Prop :=
  forall body lv, literal_value body = Some lv ->
    token_denotes (css_display lv) (css_decode body) = true /\
    length (s_val lv) = length (css_decode body) /\
    (exists u, css_unquote lv = Some u /\
       token_denotes (css_display (pref_dquotes (css_quote (mkStr u QNone)))) (css_decode body) = true).

(* escape-free literals are stored as written *)
Theorem C27_plain_store_partial : forall l, plain l = true ->
  store_dq l = Some l /\ literal_value l = Some (mkStr l QDouble).
Proof. intros. split; [now apply store_plain|now apply literal_plain]. Qed.
Print Assumptions C27_plain_store_partial.

(* ... their printed token is the body between double quotes, which denotes the body,
   and str-length counts the denoted code points *)
Theorem C27_plain_emit_partial : forall l, plain l = true ->
  exists lv, literal_value l = Some lv /\ css_display lv = 34 :: l ++ [34] /\ css_decode l = l /\
             length (s_val lv) = length (css_decode l).
Proof. exact emit_plain. Qed.
Print Assumptions C27_plain_emit_partial.

(* ... and quote(unquote(s)) is s *)
Theorem C27_plain_quote_unquote_partial : forall l, plain l = true ->
  exists u, css_unquote (mkStr l QDouble) = Some u /\ u = l /\
            pref_dquotes (css_quote (mkStr u QNone)) = mkStr l QDouble.
Proof. exact quote_unquote_plain. Qed.
Print Assumptions C27_plain_quote_unquote_partial.

(* the reference decoder is the identity on text without backslashes *)
Theorem C27_decode_plain : forall l, contains 92 l = false -> css_decode l = l.
Proof. exact decode_plain. Qed.
Print Assumptions C27_decode_plain.

(* F26a: "\10x" has two code points, str-length reports the four stored characters *)
Theorem C27_refuted_length :
  option_map (@length N) (store_dq w_10x) = Some 4%nat /\ length (css_decode w_10x) = 2%nat.
Proof. exact refuted_length. Qed.
Print Assumptions C27_refuted_length.

(* F26b is fixed (cf6ac61): unquote now reads the stored escape in base 16 *)
Example C27_unquote_hex_example :
  (match literal_value w_10x with Some lv => css_unquote lv | None => None end) = Some (css_decode w_10x) /\
  css_decode w_10x = [16; 120].
Proof. exact unquote_hex_example. Qed.

(* what is left of the quote/unquote clause: a denoted newline is not escaped again by quote *)
Theorem C27_refuted_quote_unquote_newline :
  exists lv u, literal_value w_nl = Some lv /\ css_unquote lv = Some u /\ u = [10] /\
    css_display (pref_dquotes (css_quote (mkStr u QNone))) = [34; 10; 34] /\
    token_denotes [34; 10; 34] (css_decode w_nl) = false.
Proof. exact refuted_quote_unquote_newline. Qed.
Print Assumptions C27_refuted_quote_unquote_newline.

(* a private-use character is printed as a hex escape without terminator: U+E000 then 1 reads back as U+E0001 *)
Theorem C27_refuted_private_use :
  exists lv b, literal_value w_pu = Some lv /\ token_body (css_display lv) = Some b /\
               css_decode b = [917505] /\ css_decode w_pu = w_pu.
Proof. exact refuted_private_use. Qed.
Print Assumptions C27_refuted_private_use.

(* the escaped-space part of F33 is fixed (6aead77): "a\ " is printed as a well-formed token denoting "a " *)
Example C27_escaped_space_example :
  exists lv, literal_value w_sp = Some lv /\ css_display lv = [34; 97; 92; 32; 34] /\
             token_denotes (css_display lv) (css_decode w_sp) = true /\ css_decode w_sp = [97; 32].
Proof. exact escaped_space_example. Qed.

(* the escape of a surrogate is read as the four characters d800 instead of U+FFFD *)
Theorem C27_refuted_invalid_code_point :
  store_dq w_sur = Some [100; 56; 48; 48] /\ css_decode w_sur = [65533].
Proof. exact refuted_invalid_code_point. Qed.
Print Assumptions C27_refuted_invalid_code_point.

Theorem C27_refuted_statement : ~ C27_statement.
Proof.
  intros H. destruct (H w_10x _ literal_10x) as (_ & L & _). vm_compute in L. discriminate.
Qed.
Print Assumptions C27_refuted_statement.

Example C27_hyps_sat : plain [97; 32; 233; 128512] = true.
Proof. reflexivity. Qed.
