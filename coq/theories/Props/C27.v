(* C27 - Strings keep their content through escaping and quoting.  Theorems only.
   PARTIAL: the positive theorems cover (a) every escape-free literal and (b) every
   double-quoted literal built from the well-behaved pieces described below; outside
   those classes the statement is false in the ways witnessed at the end, and the model
   (double- and single-quoted readers) is tied to rsass by correspondence.
   Missing for a full result: hex escapes without a terminating space, escapes of
   control characters / `-` / space (stored escaped), character escapes other than the
   quote and the backslash, the same proof for the single-quoted reader, interpolation. *)
From Coq Require Import String List NArith ZArith Bool.
From RV Require Import Base.Text Base.ListX Model.CssStr Model.StrEsc Spec.CssEsc Run.C27 Proofs.C27 Proofs.C27Emit.
Import ListNotations.
Local Open Scope N_scope.
Local Open Scope list_scope.

(* the full statement, on the model *)
Definition C27_statement : Prop :=
  forall body lv, literal_value body = Some lv ->
    token_denotes (css_display lv) (css_decode body) = true /\
    length (s_val lv) = length (css_decode body) /\
    (exists u, css_unquote lv = Some u /\
       token_denotes (css_display (pref_dquotes (css_quote (mkStr u QNone)))) (css_decode body) = true).

(* escape-free literals are stored as written *)
Theorem C27_plain_store_partial : forall l, plain l = true ->
  store_dq l = Some l /\ literal_value l = Some (mkStr l QDouble).
Proof. intros. split; [now apply store_plain|now apply literal_plain]. Qed.
Print Assumptions C27_plain_store_partial.

(* ... their printed token is the body between double quotes, which denotes the body,
   and str-length counts the denoted code points *)
Theorem C27_plain_emit_partial : forall l, plain l = true ->
  exists lv, literal_value l = Some lv /\ css_display lv = 34 :: l ++ [34] /\ css_decode l = l /\
             length (s_val lv) = length (css_decode l).
Proof. exact emit_plain. Qed.
Print Assumptions C27_plain_emit_partial.

(* ... and quote(unquote(s)) is s *)
Theorem C27_plain_quote_unquote_partial : forall l, plain l = true ->
  exists u, css_unquote (mkStr l QDouble) = Some u /\ u = l /\
            pref_dquotes (css_quote (mkStr u QNone)) = mkStr l QDouble.
Proof. exact quote_unquote_plain. Qed.
Print Assumptions C27_plain_quote_unquote_partial.

(* the reference decoder is the identity on text without backslashes *)
Theorem C27_decode_plain : forall l, contains 92 l = false -> css_decode l = l.
Proof. exact decode_plain. Qed.
Print Assumptions C27_decode_plain.

(* ---- literals with escapes of the well-behaved kinds (Proofs/C27Emit.v) ----
   CLASS (`wf ps`): the body of a double-quoted literal is `render ps` for a list of pieces, each one of
     - a non-empty run of plain characters (no backslash, hash, quotes, LF/CR/FF, private use), no two runs adjacent,
     - a raw apostrophe,  - an escaped double quote,  - an escaped backslash,
     - a hex escape: backslash, 1-6 hex digits, ONE terminating space, of a code point that is valid, not NUL, not a
       control character, not `-`, backslash or space, and not private use (so: printable ASCII incl. both quote
       characters, and every non-ASCII scalar value outside U+0080-U+009F and the private-use areas).
   For every such literal, of any length: *)

(* C27_emit on the class: the printed token is a well-delimited string token that denotes the literal's string *)
Theorem C27_emit_partial : forall ps, wf ps = true ->
  exists lv, literal_value (render ps) = Some lv /\
             token_denotes (css_display lv) (css_decode (render ps)) = true.
Proof. exact emit_pieces_token. Qed.
Print Assumptions C27_emit_partial.

(* the same with the pieces of the argument made explicit: what is stored, and what both texts decode to *)
Theorem C27_emit_decode_partial : forall ps, wf ps = true ->
  exists lv b, literal_value (render ps) = Some lv /\ s_val lv = stored ps /\
               token_body (css_display lv) = Some b /\
               css_decode b = css_decode (render ps) /\ css_decode (render ps) = denot ps.
Proof. exact emit_pieces. Qed.
Print Assumptions C27_emit_decode_partial.

(* str-length on the class exceeds the number of denoted code points by exactly one per escaped backslash
   (F26a, quantified: it is right iff the literal has no escaped backslash) *)
Theorem C27_length_partial : forall ps, wf ps = true ->
  exists lv, literal_value (render ps) = Some lv /\
             length (s_val lv) = (length (css_decode (render ps)) + count_bs ps)%nat.
Proof. exact length_pieces. Qed.
Print Assumptions C27_length_partial.

(* unquote yields exactly the denoted string, and quote (unquote s) is s *)
Theorem C27_quote_unquote_partial : forall ps, wf ps = true ->
  exists lv, literal_value (render ps) = Some lv /\
             css_unquote lv = Some (css_decode (render ps)) /\
             pref_dquotes (css_quote (mkStr (css_decode (render ps)) QNone)) = lv.
Proof. exact quote_unquote_pieces. Qed.
Print Assumptions C27_quote_unquote_partial.

(* quote (unquote s) = s for ALL stored strings of the class on which unquote is injective:
   CLASS (`forallb wfu us`): the stored text is a sequence of units, each a single character other than a
   backslash or a pair of backslashes (i.e. every backslash of the stored text is an escaped backslash) *)
Theorem C27_quote_unquote_units_partial : forall us q, forallb wfu us = true -> q <> QNone ->
  css_unquote (mkStr (utexts us) q) = Some (udens us) /\
  pref_dquotes (css_quote (mkStr (udens us) QNone)) = pref_dquotes (mkStr (utexts us) QDouble).
Proof. exact quote_unquote_units. Qed.
Print Assumptions C27_quote_unquote_units_partial.

Theorem C27_unquote_injective_partial : forall us us',
  forallb wfu us = true -> forallb wfu us' = true -> udens us = udens us' -> utexts us = utexts us'.
Proof. exact unquote_injective. Qed.
Print Assumptions C27_unquote_injective_partial.

(* the single-quoted reader (sass_string_sq) is modelled and tied by correspondence; proved only for
   escape-free literals: same value as the double-quoted literal with that body *)
Theorem C27_sq_plain_partial : forall l, plain l = true ->
  literal_value_sq l = Some (mkStr l QDouble) /\ literal_value_sq l = literal_value l.
Proof. exact literal_sq_plain. Qed.
Print Assumptions C27_sq_plain_partial.

Example C27_pieces_sat :
  wf [PRun [97; 233]; PHex [52; 49]; PEscQuote; PApos; PEscBs; PHex [49; 102; 54; 48; 48]; PRun [32; 122]] = true.
Proof. vm_compute. reflexivity. Qed.

(* F26a: "\10x" has two code points, str-length reports the four stored characters *)
Theorem C27_refuted_length :
  option_map (@length N) (store_dq w_10x) = Some 4%nat /\ length (css_decode w_10x) = 2%nat.
Proof. exact refuted_length. Qed.
Print Assumptions C27_refuted_length.

(* F26b is fixed (cf6ac61): unquote now reads the stored escape in base 16 *)
Example C27_unquote_hex_example :
  (match literal_value w_10x with Some lv => css_unquote lv | None => None end) = Some (css_decode w_10x) /\
  css_decode w_10x = [16; 120].
Proof. exact unquote_hex_example. Qed.

(* what is left of the quote/unquote clause: a denoted newline is not escaped again by quote *)
Theorem C27_refuted_quote_unquote_newline :
  exists lv u, literal_value w_nl = Some lv /\ css_unquote lv = Some u /\ u = [10] /\
    css_display (pref_dquotes (css_quote (mkStr u QNone))) = [34; 10; 34] /\
    token_denotes [34; 10; 34] (css_decode w_nl) = false.
Proof. exact refuted_quote_unquote_newline. Qed.
Print Assumptions C27_refuted_quote_unquote_newline.

(* the private-use part of F33 is fixed (71d4ea9): U+E000 then 1 is printed as "\e000 1" and reads back *)
Example C27_private_use_example :
  exists lv, literal_value w_pu = Some lv /\ css_display lv = [34; 92; 101; 48; 48; 48; 32; 49; 34] /\
             token_denotes (css_display lv) (css_decode w_pu) = true.
Proof. exact private_use_example. Qed.

(* what is left of it: before a tab the escape is still unterminated and the tab is lost on reading *)
Theorem C27_refuted_private_use_tab :
  exists lv b, literal_value w_put = Some lv /\ token_body (css_display lv) = Some b /\
               css_decode b = [57344] /\ css_decode w_put = w_put.
Proof. exact refuted_private_use_tab. Qed.
Print Assumptions C27_refuted_private_use_tab.

(* the escaped-space part of F33 is fixed (6aead77): "a\ " is printed as a well-formed token denoting "a " *)
Example C27_escaped_space_example :
  exists lv, literal_value w_sp = Some lv /\ css_display lv = [34; 97; 92; 32; 34] /\
             token_denotes (css_display lv) (css_decode w_sp) = true /\ css_decode w_sp = [97; 32].
Proof. exact escaped_space_example. Qed.

(* the escape of a surrogate is read as the four characters d800 instead of U+FFFD *)
Theorem C27_refuted_invalid_code_point :
  store_dq w_sur = Some [100; 56; 48; 48] /\ css_decode w_sur = [65533].
Proof. exact refuted_invalid_code_point. Qed.
Print Assumptions C27_refuted_invalid_code_point.

Theorem C27_refuted_statement : ~ C27_statement.
Proof.
  intros H. destruct (H w_10x _ literal_10x) as (_ & L & _). vm_compute in L. discriminate.
Qed.
Print Assumptions C27_refuted_statement.

Example C27_hyps_sat : plain [97; 32; 233; 128512] = true.
Proof. reflexivity. Qed.
