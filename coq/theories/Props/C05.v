(* C05 - Compilation is deterministic and isolated.  Theorems only; proofs in Proofs/C05.v.
   PARTIAL BY NATURE: what is proved is (a) that the inventory of process-wide state regenerated from the source is
   exactly the reviewed one, with admissible classes, and (b) that a store made of such items cannot make a thread's
   observations depend on history or interleaving.  That the evaluator touches process-wide state ONLY through these
   items, and that no mutating Scope method reaches a built-in module scope, is not proved; it is explored by the
   history runs (sequential and concurrent) against fresh-process baselines. *)
From Coq Require Import String List Bool.
From RV Require Import Gen.Statics Model.ScopeIsolation Proofs.C05Scopes Model.Statics Proofs.C05.
Import ListNotations.

(* adding / removing / retyping a static, a thread_local!, a dep_warn!, a use of fastrand, of the process id, the
   environment or the clock anywhere in rsass/src breaks this obligation *)
Theorem C05_statics_closed : inventory_closed = true.
Proof. exact inventory_closed_ok. Qed.
Print Assumptions C05_statics_closed.

(* every item sits in a class that its scanned kind admits: nothing interior-mutable, random or ambient is
   classified as harmless, no lazy initialiser reads ambient state *)
Theorem C05_classes : forall e, In e modelled_statics -> class_ok e = true.
Proof. exact class_ok_all. Qed.
Print Assumptions C05_classes.

(* the set of Scope methods that write to interior-mutable fields is the reviewed one *)
Theorem C05_mutators_closed : mutators_closed = true.
Proof. exact mutators_closed_ok. Qed.
Print Assumptions C05_mutators_closed.

Theorem C05_scope_shape : scope_shape_ok = true.
Proof. exact scope_shape_ok_true. Qed.
Print Assumptions C05_scope_shape.

(* EVERY interleaving (schedule = list of thread ids), any number of threads and operations, any earlier history
   (any store whose initialised cells hold their initialiser's value): a thread that does not use the counter or
   the rng observes a prefix of what it observes alone *)
Theorem C05_interleaving_partial : forall (V : Type) (init : nat -> V) sched ps s,
  store_ok V init s -> clean ps ->
  forall t, exists n, view V t (run V init sched ps s) = map (solo_obs V init) (firstn n (nth_prog ps t)).
Proof. exact interleaving. Qed.
Print Assumptions C05_interleaving_partial.

Theorem C05_history_independent_partial : forall (V : Type) (init : nat -> V) sched1 sched2 ps s1 s2,
  store_ok V init s1 -> store_ok V init s2 -> clean ps ->
  forall t, exists n1 n2,
    view V t (run V init sched1 ps s1) = map (solo_obs V init) (firstn n1 (nth_prog ps t))
    /\ view V t (run V init sched2 ps s2) = map (solo_obs V init) (firstn n2 (nth_prog ps t)).
Proof. exact history_independent. Qed.
Print Assumptions C05_history_independent_partial.

(* ---- built-in module scopes are never written (Model/ScopeIsolation.v) ---- *)

(* the calls of (transitively) mutating Scope methods, the get_global_module calls and the mentions of ScopeRef::Builtin
   in rsass/src are exactly the reviewed ones: a new call site re-opens the review *)
Theorem C05_call_sites_closed : call_sites_closed = true.
Proof. exact call_sites_closed_ok. Qed.
Print Assumptions C05_call_sites_closed.

(* every site carries a receiver class its receiver text admits; built-in refs are created in get_global_module only and
   requested at the @use and the @forward site only *)
Theorem C05_call_site_classes : forallb class_admissible reviewed_call_sites = true
  /\ sources = [("output/transform.rs", ("handle_item", ("get_global_module", ("", 1))));
                ("output/transform.rs", ("handle_item", ("get_global_module", ("", 2))));
                ("sass/functions/mod.rs", ("get_global_module", ("ScopeRef::Builtin", ("value", 1))))]%string.
Proof. split; [exact classes_admissible|exact sources_are]. Qed.
Print Assumptions C05_call_site_classes.

(* PARTIAL: for EVERY sequence of the modelled evaluator operations (new_global, sub, writes to the current scope, plain /
   module-qualified / !global assignment, @use and @forward of built-in and file modules with every `as` form, show/hide
   and `with`, load-css), from every state whose parents and forward slots are dynamic (in particular the empty one), no
   Scope method writes to a built-in module scope, and the invariant is kept.  Outside: that the Rust evaluator hands only
   handles obtained from new_global / sub to the RCur call sites (data flow of the whole evaluator; reviewed per site). *)
Theorem C05_builtins_never_written_partial : forall ops st, inv st ->
  inv (fst (ScopeIsolation.run ops st)) /\ Forall (fun r => is_dyn r = true) (snd (ScopeIsolation.run ops st)).
Proof. exact run_ok. Qed.
Print Assumptions C05_builtins_never_written_partial.

(* the model records a write to a built-in ref when a method is applied to one: the guard is what prevents it *)
Theorem C05_guard_needed :
  let st := [mkScope None [("math"%string, B 0)] None false] in
  snd (ScopeIsolation.step (OSetVariable 0 (Some "math"%string) false) st) = []
  /\ snd (m_set_variable_plain st (B 0) false) = [B 0]
  /\ snd (m_do_use st (B 0) (D 0) AsStar true) = [B 0].
Proof. exact guard_needed. Qed.
Print Assumptions C05_guard_needed.

Example C05_nonvacuous :
  store_ok nat (fun k => k) (mkStore nat (fun _ => None) (fun _ => false) 0)
  /\ clean [[OpRead 1; OpWarn 0]; [OpRead 1]]
  /\ view nat 1 (run nat (fun k => k) [0; 1; 0]%nat [[OpRead 1; OpWarn 0]; [OpRead 1]] (mkStore nat (fun _ => None) (fun _ => false) 0))
     = [ObsVal nat 1%nat].
Proof.
  split; [apply empty_store_ok|]. split; [|reflexivity].
  intros t o H. destruct t as [|[|t]]; cbn in H; repeat (destruct H as [<-|H]; [reflexivity|]); contradiction.
Qed.
