(* C05 - Compilation is deterministic and isolated.  Theorems only; proofs in Proofs/C05.v.
   PARTIAL BY NATURE: what is proved is (a) that the inventory of process-wide state regenerated from the source is
   exactly the reviewed one, with admissible classes, and (b) that a store made of such items cannot make a thread's
   observations depend on history or interleaving.  That the evaluator touches process-wide state ONLY through these
   items, and that no mutating Scope method reaches a built-in module scope, is not proved; it is explored by the
   history runs (sequential and concurrent) against fresh-process baselines. *)
From Coq Require Import String List Bool.
From RV Require Import Gen.Statics Model.Statics Proofs.C05.
Import ListNotations.

(* adding / removing / retyping a static, a thread_local!, a dep_warn!, a use of fastrand, of the process id, the
   environment or the clock anywhere in rsass/src breaks this obligation *)
Theorem C05_statics_closed : inventory_closed = true.
Proof. exact inventory_closed_ok. Qed.
Print Assumptions C05_statics_closed.

(* every item sits in a class that its scanned kind admits: nothing interior-mutable, random or ambient is
   classified as harmless, no lazy initialiser reads ambient state *)
Theorem C05_classes : forall e, In e modelled_statics -> class_ok e = true.
Proof. exact class_ok_all. Qed.
Print Assumptions C05_classes.

(* the set of Scope methods that write to interior-mutable fields is the reviewed one *)
Theorem C05_mutators_closed : mutators_closed = true.
Proof. exact mutators_closed_ok. Qed.
Print Assumptions C05_mutators_closed.

Theorem C05_scope_shape : scope_shape_ok = true.
Proof. exact scope_shape_ok_true. Qed.
Print Assumptions C05_scope_shape.

(* EVERY interleaving (schedule = list of thread ids), any number of threads and operations, any earlier history
   (any store whose initialised cells hold their initialiser's value): a thread that does not use the counter or
   the rng observes a prefix of what it observes alone *)
Theorem C05_interleaving_partial : forall (V : Type) (init : nat -> V) sched ps s,
  store_ok V init s -> clean ps ->
  forall t, exists n, view V t (run V init sched ps s) = map (solo_obs V init) (firstn n (nth_prog ps t)).
Proof. exact interleaving. Qed.
Print Assumptions C05_interleaving_partial.

Theorem C05_history_independent_partial : forall (V : Type) (init : nat -> V) sched1 sched2 ps s1 s2,
  store_ok V init s1 -> store_ok V init s2 -> clean ps ->
  forall t, exists n1 n2,
    view V t (run V init sched1 ps s1) = map (solo_obs V init) (firstn n1 (nth_prog ps t))
    /\ view V t (run V init sched2 ps s2) = map (solo_obs V init) (firstn n2 (nth_prog ps t)).
Proof. exact history_independent. Qed.
Print Assumptions C05_history_independent_partial.

Example C05_nonvacuous :
  store_ok nat (fun k => k) (mkStore nat (fun _ => None) (fun _ => false) 0)
  /\ clean [[OpRead 1; OpWarn 0]; [OpRead 1]]
  /\ view nat 1 (run nat (fun k => k) [0; 1; 0]%nat [[OpRead 1; OpWarn 0]; [OpRead 1]] (mkStore nat (fun _ => None) (fun _ => false) 0))
     = [ObsVal nat 1%nat].
Proof.
  split; [apply empty_store_ok|]. split; [|reflexivity].
  intros t o H. destruct t as [|[|t]]; cbn in H; repeat (destruct H as [<-|H]; [reflexivity|]); contradiction.
Qed.
