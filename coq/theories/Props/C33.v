(* C33 - Emitted colour text denotes the computed colour.  Theorems only; proofs in Proofs/C33.v.
   fmt_rgba / fmt_hsla / fmt_color : Model/ColorFmt.v (Display for Formatted<Rgba|Hsla|Color>)
   decode_color                   : Spec/CssColorRead.v (reference reader; names from Spec/CssColorTable.v) *)
From Coq Require Import String List NArith ZArith QArith Bool.
From RV Require Import Base.F64 Base.Text Gen.Colors Model.Color Model.ColorFmt Spec.CssColorRead Run.C33 Proofs.C33.
Import ListNotations.
Local Open Scope Z_scope.

(* every name of rsass's table, read as CSS, is the value rsass gives it (independent CSS table) *)
Theorem C33_names : forall e, In e color_table -> name_entry_ok e = true.
Proof. exact (Base.ListX.sweep1 color_table name_entry_ok names_sweep). Qed.
Print Assumptions C33_names.

(* both hex notations denote their bytes, for ALL byte triples *)
Theorem C33_hex : forall r g b, 0 <= r <= 255 -> 0 <= g <= 255 -> 0 <= b <= 255 ->
  decode_color (long_hex r g b) = Some (of_bytes r g b)
  /\ (r mod 17 = 0 -> g mod 17 = 0 -> b mod 17 = 0 -> decode_color (short_hex r g b) = Some (of_bytes r g b)).
Proof. intros. split. apply long_hex_denotes; auto. intros. apply short_hex_denotes; auto. Qed.
Print Assumptions C33_hex.

(* notation choice: for EVERY rgba value (all f64 channels) that Display treats as a byte triple,
   whatever it chooses - a name, the short or the long hex form - denotes exactly those bytes, in
   both styles and for every source notation except ShortHex (never constructed in rsass) and the
   decimal `rgb(r, g, b)` of source Rgb in expanded style (covered on a grid below) *)
Theorem C33_byte_path : forall compressed c r g b t,
  try_bytes c = Some (r, g, b) ->
  (compressed = true \/ (r_source c <> SShortHex /\ r_source c <> SRgb)) ->
  fmt_rgba compressed c = Some t -> denotes_bytes t r g b.
Proof. exact byte_path. Qed.
Print Assumptions C33_byte_path.

Theorem C33_transparent :
  match decode_color (bytes_of_string "transparent") with
  | Some d => srgb_eqb d (mkSrgb 0 0 0 0)
  | None => false
  end = true.
Proof. exact transparent_denotes. Qed.
Print Assumptions C33_transparent.

(* partial (finite grids): rgb()/rgba()/hsl()/hsla() text in both styles denotes the colour to
   1e-6 of a channel for every combination of the grid values (in range, out of range, fractional) *)
Theorem C33_rgb_grid_partial : forall c, In c rgb_grid -> col_ok c = true.
Proof. exact (Base.ListX.sweep1 rgb_grid col_ok rgb_grid_sweep). Qed.
Print Assumptions C33_rgb_grid_partial.
Theorem C33_hsl_grid_partial : forall c, In c hsl_grid -> col_ok c = true.
Proof. exact (Base.ListX.sweep1 hsl_grid col_ok hsl_grid_sweep). Qed.
Print Assumptions C33_hsl_grid_partial.
Theorem C33_hwb_grid_partial : forall c, In c hwb_grid -> col_ok c = true.
Proof. exact (Base.ListX.sweep1 hwb_grid col_ok hwb_grid_sweep). Qed.
Print Assumptions C33_hwb_grid_partial.

(* non-vacuity of C33_byte_path: an opaque integer colour printed by name *)
Example C33_nonvacuous :
  let c := mkRgba (fc 255) (fc 0) (fc 0) f_one SName in
  try_bytes c = Some (255, 0, 0) /\ fmt_rgba true c = Some (bytes_of_string "red").
Proof. vm_compute. auto. Qed.
