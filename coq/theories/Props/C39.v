(* C39 - Loader failures are reported, never absorbed.
   Property theorems only; proofs live in Proofs/C39.v.
   `orc` is an arbitrary loader (any function of the call history and the url, failing whenever it
   likes, handing out unreadable files whenever it likes); `content` is an arbitrary set of files. *)
From Coq Require Import String List Bool Arith NArith.
From RV Require Import Gen.Candidates Gen.LoaderSites Model.Load Model.LoadRun Proofs.C39.
Import ListNotations.
Local Open Scope string_scope.
Local Open Scope list_scope.

(* every call site of Loader::find_file, do_find_file, Context::find_file, SourceFile::read,
   SourceFile::parse, load_module and handle_parsed/body/item in the loading code (regenerated from
   the Rust source) hands its Result on with `?`, as a tail expression, or through a variable that is
   `?`-ed later; and each of these functions has at least one site in the inventory *)
Theorem C39_sites : sites_ok = true.
Proof. exact sites_ok_true. Qed.
Print Assumptions C39_sites.

Theorem C39_every_site_propagates : forall s, In s loader_sites -> propagates s = true.
Proof. exact every_site_propagates. Qed.
Print Assumptions C39_every_site_propagates.

(* css is returned only if no loader call failed and every file handed out was readable *)
Theorem C39_ok_means_no_failure : forall orc content fuel root rootid s,
  run orc content fuel root rootid = ROk s -> all_good orc (calls s).
Proof. exact ok_means_no_failure. Qed.
Print Assumptions C39_ok_means_no_failure.

(* in the contrapositive, call by call: a failed lookup or an unreadable file anywhere in the run
   excludes a css result *)
Theorem C39_failure_is_reported : forall orc content fuel root rootid,
  match run orc content fuel root rootid with
  | ROk s => forall post_ u pre, calls s = post_ ++ u :: pre -> good_answer (orc pre u)
  | _ => True
  end.
Proof. exact failure_is_reported. Qed.
Print Assumptions C39_failure_is_reported.

(* a failure is not converted into a loop / not-found error either *)
Theorem C39_other_error_means_no_failure : forall orc content fuel root rootid e s,
  run orc content fuel root rootid = RErr e s -> fault_err e = false -> all_good orc (calls s).
Proof. exact other_error_means_no_failure. Qed.
Print Assumptions C39_other_error_means_no_failure.

(* the error is raised by the very call that failed: nothing is called after it *)
Theorem C39_loader_error_is_last_call : forall orc content fuel root rootid s,
  run orc content fuel root rootid = RErr ELoaderFail s ->
  exists u pre, calls s = u :: pre /\ orc pre u = AFail /\ all_good orc pre.
Proof. exact loader_error_is_last_call. Qed.
Print Assumptions C39_loader_error_is_last_call.

Theorem C39_read_error_is_last_call : forall orc content fuel root rootid s,
  run orc content fuel root rootid = RErr EReadFail s ->
  exists u pre id, calls s = u :: pre /\ orc pre u = AFound id false /\ all_good orc pre.
Proof. exact read_error_is_last_call. Qed.
Print Assumptions C39_read_error_is_last_call.

(* the hypotheses are satisfiable: a fault at the third call of a two-file compilation *)
Example C39_example :
  let w := [("t.scss", [DLoad KUse "a"]); ("_a.scss", [DEmit 1%N])] in
  exists s, run (mem_oracle w (FailFind 1)) (assoc_body w) 5 "t.scss" "t.scss" = RErr ELoaderFail s.
Proof. eexists. vm_compute. reflexivity. Qed.
