(* C07 - Output is well framed and correctly encoded.
   Property theorems only; proofs live in Proofs/C07.v.  `into_buffer s d` is the
   model of CssData::into_buffer over the item writers (Model/Out.v); the
   predicates final_newline_ok, balanced, marker_ok, one_line_ok are the clauses
   of the statement (Spec/CssTok.v), the same ones the check evaluates on the
   implementation's output.  All theorems quantify over ALL css item trees. *)
From Coq Require Import List NArith Bool.
From RV Require Import Base.Text Spec.CssTok Model.Out Proofs.C07.
Import ListNotations.
Local Open Scope N_scope.

(* (c) the output is pure ASCII or starts with the style's marker; so it carries
   the marker whenever it has a non-ASCII byte.  No hypothesis. *)
Theorem C07_marker : forall s d,
  marker_ok (is_compressed s) (into_buffer s d) = true
  /\ (is_ascii (into_buffer s d) = false ->
      starts_with (if is_compressed s then CssTok.bom_mark else CssTok.charset_mark) (into_buffer s d) = true).
Proof.
  intros s d. pose proof (marker_main s d) as H. split; [exact H|].
  intros Hn. unfold marker_ok in H. rewrite Hn in H. exact H.
Qed.
Print Assumptions C07_marker.

(* (a) expanded: empty or exactly one final newline.  No hypothesis. *)
Theorem C07_final_newline_expanded : forall d, final_newline_ok (into_buffer Expanded d) = true.
Proof. exact final_newline_expanded. Qed.
Print Assumptions C07_final_newline_expanded.

(* (a) compressed: under the hypothesis that no leaf text has a line break
   (a custom-property value ending in a newline would leave `\n;` at the end) *)
Theorem C07_final_newline_compressed : forall d, nonl_data d = true ->
  final_newline_ok (into_buffer Compressed d) = true.
Proof. exact final_newline_compressed. Qed.
Print Assumptions C07_final_newline_compressed.

(* (b) braces and brackets balance outside strings, comments and url(), when every
   leaf text is balanced on its own (and comment texts have no `/`) *)
Theorem C07_balance : forall s d, data_ok s d = true -> balanced (into_buffer s d) = true.
Proof. exact balance_main. Qed.
Print Assumptions C07_balance.

(* F10: without the leaf hypothesis (b) is false: `a { x: } }` *)
Theorem C07_refuted_unquoted_brace : exists d,
  balanced (into_buffer Expanded d) = false /\ balanced (into_buffer Compressed d) = false.
Proof. exists brace_witness. exact refuted_unquoted_brace. Qed.
Print Assumptions C07_refuted_unquoted_brace.

(* (d) compressed output has no line break except the final one, when no leaf has one *)
Theorem C07_compressed_one_line : forall d, nonl_data d = true ->
  nonl (removelast (into_buffer Compressed d)) = true.
Proof. exact one_line_main. Qed.
Print Assumptions C07_compressed_one_line.

(* a comment with a line break, indented deeper than its block, is written in
   compressed style with a line break between every two characters *)
Theorem C07_refuted_compressed_comment : exists d, one_line_ok (into_buffer Compressed d) = false.
Proof. exists comment_witness. exact refuted_compressed_comment. Qed.
Print Assumptions C07_refuted_compressed_comment.

(* the hypotheses are satisfiable by a non-trivial tree *)
Definition sample : cssdata :=
  mkData [IImport [34;120;34] None]
         [IComment [32;99;32];
          IMedia (MAnd [MName [115]; MCond [119] (same_leaf [49;112;120])])
            [IRule [same_leaf [97]; mkLeaf [98;32;62;32;99] [98;62;99]]
               [IProp [120] (same_leaf [34;123;34]); ICustom [45;45;118] [32;123;97;125] false];
             IAt [102] (Some (same_leaf [103])) (Some [IComment [32;122;32]])]].
Example sample_ok :
  data_ok Expanded sample = true /\ data_ok Compressed sample = true /\ nonl_data sample = true.
Proof. repeat split; vm_compute; reflexivity. Qed.
