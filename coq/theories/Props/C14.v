(* C14 - `not`, `and`, `or` follow Sass truthiness.  Property theorems only. *)
From Coq Require Import List ZArith Bool NArith.
From RV Require Import Base.F64 Model.Numeric Model.Truth Spec.Truthiness Run.C14 Proofs.C14.
Import ListNotations.
Local Open Scope N_scope.

(* is_true is Sass truthiness: falsey exactly for false and null *)
Theorem C14_truthy : forall v, is_true v = negb (s_falsey (to_sval v)).
Proof. exact truthy_spec. Qed.
Print Assumptions C14_truthy.

(* all operand expressions a, b (any value, effects, failures), any trace *)
Theorem C14_and : forall a b log,
  match eval a log with
  | (Ok v, l) => eval (EAnd a b) log = if is_true v then eval b l else (Ok v, l)
  | (Fail i, l) => eval (EAnd a b) log = (Fail i, l)
  end.
Proof. exact and_spec. Qed.
Print Assumptions C14_and.

Theorem C14_or : forall a b log,
  match eval a log with
  | (Ok v, l) => eval (EOr a b) log = if is_true v then (Ok v, l) else eval b l
  | (Fail i, l) => eval (EOr a b) log = (Fail i, l)
  end.
Proof. exact or_spec. Qed.
Print Assumptions C14_or.

(* the right operand is evaluated (its effects recorded, its failure raised) iff its value is needed *)
Theorem C14_short_circuit : forall a log v l, eval a log = (Ok v, l) ->
  (is_true v = false -> forall b, eval (EAnd a b) log = (Ok v, l)) /\
  (is_true v = true -> forall b, eval (EOr a b) log = (Ok v, l)) /\
  (is_true v = true -> forall b, eval (EAnd a b) log = eval b l) /\
  (is_true v = false -> forall b, eval (EOr a b) log = eval b l).
Proof. exact short_circuit. Qed.
Print Assumptions C14_short_circuit.

(* `not` on booleans *)
Theorem C14_not : forall e log v l, eval e log = (Ok v, l) -> (vk v = KTrue \/ vk v = KFalse) ->
  eval (ENot e) log = (Ok (vbool (negb (is_true v))), l).
Proof. exact not_bool. Qed.
Print Assumptions C14_not.

(* PARTIAL for numbers: `not n` is false provided Number::eq(n, 0) is false (it is on 0, -0, 1, tiny, huge,
   infinities, NaN: number_eq_zero_examples; not proved for every double) *)
Theorem C14_not_number_partial :
  (forall e log b t l, eval e log = (Ok (mkV (KNum b) t), l) ->
     number_eq (of_bits b) f_zero = false -> eval (ENot e) log = (Ok (vbool false), l)) /\
  forallb (fun b => negb (number_eq (of_bits b) f_zero))
    [0; 9223372036854775808; 4607182418800017408; 1; 9218868437227405311; 9218868437227405312;
     18442240474082181120; 9221120237041090560; 4602678819172646912; 13830554455654793216]%Z = true.
Proof. split; [exact not_number|exact number_eq_zero_examples]. Qed.
Print Assumptions C14_not_number_partial.

(* F21: the statement for every operand is false: `not null` stays `not null` *)
Theorem C14_refuted_not : ~ not_statement /\
  eval (ENot (ELeaf v_null)) [] = (Ok (mkV KOther [110; 111; 116; 32; 110; 117; 108; 108]), []).
Proof. exact refuted_not. Qed.
Print Assumptions C14_refuted_not.

(* outside the class (no `not` on a non-boolean non-number) the code's semantics IS the reference semantics:
   same value / failure and same effect trace, for every expression (structural induction) *)
Theorem C14_agrees_with_reference : forall e, bad_not e = false -> nums_ok e = true -> forall log,
  snd (eval e log) = snd (seval (to_spec e) log) /\
  matchres (fst (eval e log)) (fst (seval (to_spec e) log)).
Proof. exact agrees. Qed.
Print Assumptions C14_agrees_with_reference.

Example C14_nonvacuous :
  let e := EOr (EAnd (EEff 1 (vbool true)) (ENot (EEff 2 (vbool false)))) (EBoom 3) in
  bad_not e = false /\ nums_ok e = true /\ eval e [] = (Ok (vbool true), [1; 2]).
Proof. vm_compute. auto. Qed.
