(* C31 - Colour channels stay in range and conversions round-trip.
   Property theorems only; proofs in Proofs/C31.v.  Model: Model/Color.v (Flocq binary64). *)
From Coq Require Import String List ZArith Bool.
From RV Require Import Base.F64 Base.FMod Gen.Colors Model.Color Run.C31 Proofs.C31.
Import ListNotations.
Local Open Scope Z_scope.

(* Rgba::new: for EVERY four f64 arguments - NaN and infinities included - red, green and blue
   lie in [0, 255] and alpha in [0, 1] *)
Theorem C31_rgb_range : forall r g b a s,
  let c := rgba_new r g b a s in
  in01 f_zero f255 (r_red c) /\ in01 f_zero f255 (r_green c) /\ in01 f_zero f255 (r_blue c)
  /\ in01 f_zero f_one (r_alpha c).
Proof. exact rgb_range. Qed.
Print Assumptions C31_rgb_range.

(* Hsla::new: alpha in [0, 1] for every f64; saturation never below 0 (NaN is kept) *)
Theorem C31_hsl_alpha_range : forall h s l a f, in01 f_zero f_one (h_alpha (hsla_new h s l a f)).
Proof. exact hsl_alpha_range. Qed.
Print Assumptions C31_hsl_alpha_range.
Theorem C31_hsl_sat_nonneg : forall h s l a f,
  f_is_nan s = false -> fle f_zero (h_sat (hsla_new h s l a f)) = true.
Proof. exact hsl_sat_nonneg. Qed.
Print Assumptions C31_hsl_sat_nonneg.

(* Hwba::new: alpha in [0, 1] unless it is NaN (f64::clamp keeps NaN) *)
Theorem C31_hwb_alpha_range : forall h w b a,
  f_is_nan a = false -> in01 f_zero f_one (w_alpha (hwba_new h w b a)).
Proof. exact hwb_alpha_range. Qed.
Print Assumptions C31_hwb_alpha_range.

(* hue: partial.  deg_mod returns the fmod remainder, or remainder + 360 when it is negative;
   nothing more is proved about the range ... *)
Theorem C31_hue_shape_partial : forall h, let r := ffmod h f360 in
  deg_mod h = r \/ (f_sign_neg r = true /\ deg_mod h = fadd r f360).
Proof. exact hue_shape. Qed.
Print Assumptions C31_hue_shape_partial.
(* ... and `0 <= hue < 360` is false: -0 and -1e-17 give exactly 360 *)
Definition C31_hue_statement : Prop := forall h s l a f, f_is_finite h = true ->
  flt (h_hue (hsla_new h s l a f)) f360 = true.
Theorem C31_refuted_hue : feq (h_hue (hsla_new f_neg_zero f_one f_half f_one true)) f360 = true
                       /\ feq (h_hue (hsla_new tiny_neg f_one f_half f_one true)) f360 = true.
Proof. exact refuted_hue. Qed.
Print Assumptions C31_refuted_hue.

(* the named-colour table regenerated from rgba.rs: every name is unique, from_name gives its
   table bytes as an opaque colour, and the name printed for that value is the first one carrying it *)
Theorem C31_named : forall e, In e color_table -> entry_ok e = true.
Proof. exact table_entry. Qed.
Print Assumptions C31_named.

(* colours with the same rgba channels compare equal, whatever their source notation (all f64, NaN too) *)
Theorem C31_eq_same_rgba : forall x y,
  r_red x = r_red y -> r_green x = r_green y -> r_blue x = r_blue y -> r_alpha x = r_alpha y ->
  rgba_cmp x y = Eq.
Proof. exact rgba_cmp_same. Qed.
Print Assumptions C31_eq_same_rgba.

(* round trips, partial (finite sweeps): EVERY named colour survives rgb -> hsl -> rgb and
   rgb -> hwb -> rgb within the comparison tolerance 1e-7 (no exception any more: F33 is fixed);
   all 256 greys survive and get saturation 0 *)
Theorem C31_roundtrip_named_partial : forall e, In e color_table -> entry_rt e = true.
Proof. exact (Base.ListX.sweep1 color_table entry_rt named_rt_sweep). Qed.
Print Assumptions C31_roundtrip_named_partial.
Theorem C31_roundtrip_gray_partial : forall g, In g grays -> gray_rt g = true.
Proof. exact (Base.ListX.sweep1 grays gray_rt gray_rt_sweep). Qed.
Print Assumptions C31_roundtrip_gray_partial.

(* the former counterexample of F33: yellow is hsl(60, 100%, 50%) again *)
Theorem C31_yellow_fixed :
  let c := rgba_from_bytes 255 255 0 in
  feq (h_lum (hsla_of_rgba c)) f_half = true /\ feq (h_hue (hsla_of_rgba c)) f60 = true /\ rt_hsl c = true.
Proof. exact yellow_fixed. Qed.
Print Assumptions C31_yellow_fixed.

Example C31_nonvacuous : In ("aliceblue"%string, 15792383) color_table /\ In 128 grays.
Proof.
  split.
  - apply (nth_error_In color_table 0). reflexivity.
  - apply (nth_error_In grays 128). reflexivity.
Qed.
