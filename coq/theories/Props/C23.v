(* C23 - is-superselector is a preorder with the expected monotonicity.
   Property theorems only; proofs live in Proofs/C23.v.  sup_sel / sup_comp / sup_pseudo / sup_sels are the
   model of is_superselector on Selector / CompoundSelector / Pseudo / SelectorSet (Model/SelAlg.v). *)
From Coq Require Import List NArith Bool.
From RV Require Import Model.Sel Model.SelAlg Run.C23 Proofs.C23.
Import ListNotations.
Import String.StringSyntax.
Local Open Scope string_scope.
Local Open Scope list_scope.

(* ALL selectors: c is a superselector of every c' obtained from it by adding simple selectors (no new
   pseudo-element) to any of its compounds and ancestors / parents in front of its root *)
Theorem C23_extends : forall c c', extends c c' -> sup_sel c c' = true.
Proof. exact sup_extends. Qed.
Print Assumptions C23_extends.

Theorem C23_refl : forall s, sup_sel s s = true.
Proof. exact sup_sel_refl. Qed.
Print Assumptions C23_refl.

Theorem C23_refl_list : forall l, sup_sels l l = true.
Proof. exact sup_sels_refl. Qed.
Print Assumptions C23_refl_list.

Theorem C23_contains : forall l c, In c l -> sup_sels l [c] = true.
Proof. exact sup_sels_contains. Qed.
Print Assumptions C23_contains.

(* adding one simple selector to the last compound of a member *)
Theorem C23_add_simple : forall l rel c, In (Sel rel c) l ->
  (forall x, sup_sels l [Sel rel (add_class x c)] = true)
  /\ (forall x, sup_sels l [Sel rel (add_attr x c)] = true)
  /\ (forall p, p_is_element p = false -> sup_sels l [Sel rel (add_pseudo p c)] = true)
  /\ (forall x, b_id (c_base c) = None -> sup_sels l [Sel rel (set_id x c)] = true)
  /\ (forall x, b_elem (c_base c) = None -> sup_sels l [Sel rel (set_elem x c)] = true).
Proof.
  intros l rel c Hin. repeat split; intros;
    apply (sup_sels_extends l (Sel rel c) _ Hin); apply extends_last;
    [apply ext_add_class | apply ext_add_attr | apply ext_add_pseudo; assumption
    | apply ext_set_id; assumption | apply ext_set_elem; assumption].
Qed.
Print Assumptions C23_add_simple.

(* adding an ancestor or a parent in front of a member *)
Theorem C23_add_ancestor : forall l s k x, In s l -> k = Ancestor \/ k = Parent ->
  sup_sels l [add_root k x s] = true.
Proof. intros l s k x Hin Hk. apply (sup_sels_extends l s _ Hin). apply extends_add_root. exact Hk. Qed.
Print Assumptions C23_add_ancestor.

(* the clause evaluated on the implementation's answers (Run.C23.clause_expect_true) is an instance *)
Theorem C23_run_clause : forall l c', existsb (fun x => extends_b x c') l = true -> sup_sels l [c'] = true.
Proof. exact clause_expect_true_model. Qed.
Print Assumptions C23_run_clause.

(* the model defines a.is_superselector(b) twice, recursive in a (the sup_ functions) and recursive in b (the sub_ functions), because
   `:not` swaps the arguments; the two definitions agree on ALL selectors *)
Theorem C23_directions_agree : forall a b, sub_sel a b = sup_sel b a.
Proof. exact sub_is_sup_swapped. Qed.
Print Assumptions C23_directions_agree.

(* transitivity for ALL complex selectors (combinators, selector pseudos, :not reversal, pseudo-elements,
   namespaces): induction on the total size of the three selectors; the ancestor / sibling walks are replayed
   along the chain of the middle selector (anc_follow, sib_follow) *)
Theorem C23_trans : forall a b c, sup_sel a b = true -> sup_sel b c = true -> sup_sel a c = true.
Proof. exact sup_sel_trans. Qed.
Print Assumptions C23_trans.

Theorem C23_trans_compound : forall a b c, sup_comp a b = true -> sup_comp b c = true -> sup_comp a c = true.
Proof. exact sup_comp_trans. Qed.
Print Assumptions C23_trans_compound.

(* ... and for selector lists: is-superselector is a preorder *)
Theorem C23_trans_list : forall la lb lc, sup_sels la lb = true -> sup_sels lb lc = true -> sup_sels la lc = true.
Proof. exact sup_sels_trans. Qed.
Print Assumptions C23_trans_list.

Example C23_hyps_sat :
  let a := Sel None (Comp (mkBase false (Some (str "a")) [] [] None []) []) in
  let b := Sel (Some (Parent, Sel None (Comp (mkBase false (Some (str "x")) [] [] None []) [])))
               (Comp (mkBase false (Some (str "a")) [] [str "c"] None []) []) in
  extends a b /\ extends_b a b = true.
Proof.
  cbv zeta. split; [|vm_compute; reflexivity].
  apply extends_b_sound. vm_compute. reflexivity.
Qed.
