(* C38 - Library entry points agree with each other.  Theorems only; proofs in Proofs/C38.v.
   The *_body terms are regenerated from rsass/src/lib.rs and input/context.rs on every check; `lib` is an
   arbitrary interpretation of every library function and method. *)
From Coq Require Import String List Bool.
From RV Require Import Gen.Entry Model.Entry Spec.EntryDocs Proofs.C38.
Import ListNotations.
Local Open Scope string_scope.

(* compile_scss(b, f) IS transform(with_format(for_cwd(), f), scss_bytes(b, root("-"))) and writes nothing *)
Theorem C38_scss : forall lib input format,
  run_body lib compile_scss_body compile_scss_params [input; format] = Some (doc_compile_scss lib input format, []).
Proof. exact scss_tree. Qed.
Print Assumptions C38_scss.

(* compile_scss_path(p, f): for_path(p), then the same with_format / transform; a for_path failure is returned *)
Theorem C38_path_tree : forall lib path format v, doc_compile_scss_path lib path format = Some v ->
  run_body lib compile_scss_path_body compile_scss_path_params [path; format] = Some (v, []).
Proof. exact path_tree. Qed.
Print Assumptions C38_path_tree.

Theorem C38_for_path_tree : forall lib path v, doc_fscontext_for_path lib path = Some v ->
  run_body lib fscontext_for_path_body fscontext_for_path_params [path] = Some (v, []).
Proof. exact for_path_tree. Qed.
Print Assumptions C38_for_path_tree.

(* compile_value(v, f): parse, evaluate in a fresh global scope carrying f, print with f *)
Theorem C38_value_tree : forall lib input format v, doc_compile_value lib input format = Some v ->
  run_body lib compile_value_body compile_value_params [input; format] = Some (v, []).
Proof. exact value_tree. Qed.
Print Assumptions C38_value_tree.

(* PARTIAL: compile_scss_path differs from compile_scss only in the context and source it hands to the same
   with_format / transform pipeline.  That transform gives the same bytes for (for_cwd, bytes named "-") and
   (for_path p) when nothing relative is loaded, and that compile_value prints what a declaration prints, is NOT
   proved here (it needs the whole evaluator); both are decided by the differential check. *)
Theorem C38_path_pipeline_partial : forall lib path format ctx src,
  lib "FsContext::for_path" [path] = VOk (VTuple [ctx; src]) ->
  run_body lib compile_scss_path_body compile_scss_path_params [path; format]
  = Some (lib "transform" [lib "with_format" [ctx; format]; src], []).
Proof. exact path_vs_scss_shape. Qed.
Print Assumptions C38_path_pipeline_partial.

Example C38_nonvacuous :
  let lib := fun (f : string) (args : list val) =>
    if String.eqb f "FsContext::for_path" then VOk (VTuple [VAbs 1; VAbs 2]) else VApp f args in
  doc_compile_scss_path lib (VAbs 0) (VAbs 9)
  = Some (VApp "transform" [VApp "with_format" [VAbs 1; VAbs 9]; VAbs 2]).
Proof. reflexivity. Qed.
