(* C18 - Functions, mixins and content blocks bind arguments correctly.
   Property theorems only; proofs live in Proofs/C18.v. *)
From Coq Require Import String Ascii List ZArith NArith Bool.
From RV Require Import Model.EvValue Model.EvArgs Spec.SassArgs Run.C18 Proofs.C18.
Import ListNotations.
Local Open Scope string_scope.
Local Open Scope list_scope.

(* the full statement: the model of CallArgs::evaluate + FormalArgs::eval is the reference binder *)
Definition C18_statement : Prop := forall s c, sig_wf s -> model_bind s c = spec_bind s c.

(* it is false in one input class found while proving it (reproduced on rsass); the two other classes of the
   first version (F30, F31) were fixed in rsass by 09ccabb and 5cd805f *)
Theorem C18_refuted_only_named : exists s c, sig_wf s /\ known_K3 s c = true /\ model_bind s c <> spec_bind s c.
Proof.
  exists (sig1 (Some "r")), (mkCall [VInt 1] [("r", VInt 2)] None None None).
  split; [repeat constructor; intros [] | exact refuted_only_named].
Qed.
Print Assumptions C18_refuted_only_named.

(* main theorem: for ALL signatures (distinct parameter names) and ALL calls (positional, named, list splat,
   re-splatted argument list, map splat) outside the one remaining class, binding = reference binding: same
   parameters, same values, same rest list, same keywords, and an error exactly when the reference says error *)
Theorem C18_bind : forall s c,
  sig_wf s -> known_K3 s c = false -> model_bind s c = spec_bind s c.
Proof. exact bind_main. Qed.
Print Assumptions C18_bind.

(* a keyword written twice, or written explicitly and also carried by a re-splatted argument list
   (`@include m($b: 9, $args...)` where $args captured `$b: 2`) or by a map splat, is a duplicate-argument error *)
Theorem C18_duplicate : forall s c, dup_names (all_named c) = true -> model_bind s c = BErr.
Proof. exact resplat_duplicate. Qed.
Print Assumptions C18_duplicate.

(* positional arguments bind by position *)
Theorem C18_positional : forall s pos, length pos = length (s_params s) ->
  formal_eval s pos [] =
  BOk (map (fun pv => (norm (fst (fst pv)), snd pv)) (combine (s_params s) pos))
      (match s_rest s with Some _ => Some (RArgs [] []) | None => None end).
Proof. exact positional. Qed.
Print Assumptions C18_positional.

(* too many arguments without a rest parameter: error *)
Theorem C18_too_many : forall s pos nm, s_rest s = None ->
  (length (s_params s) < length pos + length nm)%nat -> formal_eval s pos nm = BErr.
Proof. exact too_many. Qed.
Print Assumptions C18_too_many.

(* an unknown keyword without a rest parameter: error *)
Theorem C18_unknown_named : forall s c,
  sig_wf s -> s_rest s = None ->
  (exists kv, In kv (all_named c) /\ is_param (s_params s) (fst kv) = false) ->
  model_bind s c = BErr.
Proof. exact unknown_named. Qed.
Print Assumptions C18_unknown_named.

(* a parameter without default that is neither reached by position nor named: error *)
Theorem C18_missing : forall name r b nm,
  n_get nm (norm name) = None -> bind_rest_params ((name, None) :: r) b nm = None.
Proof. exact missing. Qed.
Print Assumptions C18_missing.

(* `-` and `_` are the same in names *)
Theorem C18_dash_underscore : forall a b : string,
  norm (String.append a (String "-"%char b)) = norm (String.append a (String "_"%char b)).
Proof. exact norm_dash. Qed.
Print Assumptions C18_dash_underscore.

(* a function body returns the first @return reached in execution order *)
Theorem C18_first_return : forall body, body_eval body = first_return body.
Proof. exact first_return_ok. Qed.
Print Assumptions C18_first_return.

(* non-vacuity *)
Example C18_nonvacuous :
  let s := mkSig [("a", None); ("b-c", Some (DRef "a")); ("d", Some (DLit (VInt 9)))] (Some "r") in
  let c := mkCall [VInt 1] [("b_c", VInt 2); ("u", VInt 3)] None (Some [("d", VInt 7)]) None in
  known_K3 s c = false /\
  model_bind s c = BOk [("a", VInt 1); ("b_c", VInt 2); ("d", VInt 7)] (Some (RArgs [] [("u", VInt 3)])).
Proof. vm_compute. repeat split. Qed.
