(* C17 - Control-flow directives run the specified iterations.
   Property theorems only; proofs live in Proofs/C17.v. *)
From Coq Require Import String List ZArith Bool.
From RV Require Import Base.F64 Model.Units Model.Numeric Model.EvValue Model.EvRange Model.EvFlow
  Spec.SassFlow Run.C17 Proofs.C17.
Import ListNotations.
Local Open Scope Z_scope.

(* the full statement (F2 was fixed by 48adbab: the end bound lives in an i128): for ALL i64 bounds, ascending
   and descending, inclusive and exclusive, the iteration is exactly the integer interval *)
Theorem C17_range : forall from to incl fuel,
  i64_ok from = true -> i64_ok to = true ->
  (Z.to_nat (Z.abs (to - from)) + 1 < fuel)%nat ->
  range_items fuel from to incl = RItems (spec_range from to incl).
Proof. exact range_correct. Qed.
Print Assumptions C17_range.

(* neither `to + step` nor `from += step` (i128) can overflow for i64 bounds: no range panics *)
Theorem C17_range_never_panics : forall from to incl fuel,
  i64_ok from = true -> i64_ok to = true -> range_items fuel from to incl <> RPanic.
Proof. exact never_panics. Qed.
Print Assumptions C17_range_never_panics.

(* a @for over two numbers is an error or the items - never a panic *)
Theorem C17_for_total : forall from to incl, for_eval from to incl <> FPanic.
Proof. exact for_total. Qed.
Print Assumptions C17_for_total.

(* SrcRange::evaluate + the loop: `$i` has a's unit, the bounds are a's integer and b's
   (converted through the unit table when both have units) integer, and the values are the interval *)
Theorem C17_for_unit : forall from to incl l u,
  for_eval from to incl = FItems l u ->
  u = nunit from /\ exists f t, src_evaluate from to = SRange f t (nunit from)
                            /\ l = map f_of_Z (spec_range f t incl).
Proof. exact for_unit. Qed.
Print Assumptions C17_for_unit.

Theorem C17_bounds_units : forall from to f t u,
  src_evaluate from to = SRange f t u ->
  u = nunit from /\ into_integer (nval from) = Some f /\
  ((us_is_none (nunit from) || num_is_no_unit to = true /\ into_integer (nval to) = Some t)
   \/ (us_is_none (nunit from) || num_is_no_unit to = false /\
       exists s, us_scale_to (nunit to) (nunit from) = SSome s /\ into_integer (fmul (nval to) s) = Some t)).
Proof. exact src_evaluate_shape. Qed.
Print Assumptions C17_bounds_units.

(* @if / @else if / @else: exactly the first branch whose condition is truthy, else the @else body *)
Theorem C17_if_chain : forall i, if_eval i = let (br, els) := chain_of i in first_truthy br els.
Proof. exact if_chain. Qed.
Print Assumptions C17_if_chain.

(* Scope::define_multi is the reference destructuring: position k of the element, null when missing *)
Theorem C17_define_multi : forall names item, define_multi names item = destructure names item.
Proof. exact define_multi_spec. Qed.
Print Assumptions C17_define_multi.

(* @each: one run per list element / map entry (as a key-value pair), destructured *)
Theorem C17_each : forall names v, each_eval names v = spec_each names v.
Proof. exact each_spec. Qed.
Print Assumptions C17_each.

(* @while over any state type, condition and body: the body runs in exactly the states before the
   first falsey condition *)
Theorem C17_while_sound : forall (S : Type) (cond : S -> value) (body : S -> S) fuel s l e,
  while_eval cond body fuel s = Some (l, e) ->
  exists n, (n < fuel)%nat /\
    l = map (fun k => iter_n body k s) (seq 0 n) /\ e = iter_n body n s /\
    (forall k, (k < n)%nat -> is_true (cond (iter_n body k s)) = true) /\
    is_true (cond e) = false.
Proof. intros S cond body. exact (while_sound cond body). Qed.
Print Assumptions C17_while_sound.

Theorem C17_while_complete : forall (S : Type) (cond : S -> value) (body : S -> S) n s fuel,
  (forall k, (k < n)%nat -> is_true (cond (iter_n body k s)) = true) ->
  is_true (cond (iter_n body n s)) = false -> (n < fuel)%nat ->
  while_eval cond body fuel s = Some (map (fun k => iter_n body k s) (seq 0 n), iter_n body n s).
Proof. intros S cond body. exact (while_complete cond body). Qed.
Print Assumptions C17_while_complete.

Theorem C17_while_spec : forall (S : Type) (cond : S -> value) (body : S -> S) fuel s,
  while_eval cond body fuel s = spec_while cond body fuel s.
Proof. intros S cond body. exact (while_spec cond body). Qed.
Print Assumptions C17_while_spec.

(* non-vacuity: hypotheses are satisfiable, and the theorems compute on concrete inputs *)
Example C17_nonvacuous :
  i64_ok 3 = true
  /\ range_items 5 9223372036854775806 9223372036854775807 true = RItems [9223372036854775806; 9223372036854775807]
  /\ range_items 20 3 (-2) true = RItems [3; 2; 1; 0; -1; -2]
  /\ range_items 20 (-1) 2 false = RItems [-1; 0; 1]
  /\ if_eval (IfS VNull 0 (EIf (IfS (VInt 0) 1 (EBody 2)))) = Some 1%nat
  /\ each_eval ["p"; "q"]%string (VList [VList [VInt 1; VInt 2; VInt 3] (Some SpSpace) false; VInt 4] (Some SpComma) false)
     = [[("p", VInt 1); ("q", VInt 2)]; [("p", VInt 4); ("q", VNull)]]%string
  /\ counter_loop 50 WLt 0 3 1 = Some ([0; 1; 2], 3).
Proof. vm_compute. repeat split. Qed.
