(* C37 - @use/@forward configuration and visibility rules hold.
   Property theorems only; proofs live in Proofs/C37.v. *)
From Coq Require Import String Ascii List ZArith Bool.
From RV Require Import Model.EvArgs Model.EvModule Spec.SassModule Run.C37 Proofs.C37.
Import ListNotations.
Local Open Scope string_scope.
Local Open Scope list_scope.

(* default namespace (full strength since fix 18a59ef; F33 is gone): for EVERY directory part (empty, or anything
   ending in `/` or `:`), EVERY base name without separators and dots that does not start with `_`, with or
   without the partial underscore, with or without .scss / .sass / .css: the namespace is the base name
   (`_` shown as `-`, which is the same name) *)
Theorem C37_namespace : forall dir base us x,
  (dir = "" \/ exists d c, is_sep c = true /\ dir = String.append d (String c "")) ->
  all_not is_sep base = true -> all_not is_dot base = true -> starts_us base = false ->
  default_namespace (String.append dir (String.append (us_str us) (String.append base (ext_str x)))) = disp base.
Proof. exact namespace_ok. Qed.
Print Assumptions C37_namespace.
(* the text after the last `:` / `/` is the reference's last segment, for all URLs *)
Theorem C37_last_segment : forall s cur, after_last_from s cur = last (split_on url_sep s cur) EmptyString.
Proof. exact after_last_is_last_segment. Qed.
Print Assumptions C37_last_segment.

(* @forward show / hide / as p-* filter and rename exactly the listed members: ALL member sets, prefixes and
   lists (full strength since fix 2f8ada8; F29 is gone) *)
Theorem C37_forward_filter : forall m pfx e, forward_view m pfx e = spec_forward_view m pfx e.
Proof. exact forward_ok. Qed.
Print Assumptions C37_forward_filter.
Theorem C37_show_hide : forall m e, forward_view m None e = spec_forward_view m None e.
Proof. exact show_hide. Qed.
Print Assumptions C37_show_hide.

(* `with`: for every module and every duplicate-free configuration of variables the module declares
   with !default, rsass's module variables are the reference's *)
Theorem C37_with_default_only : forall decls cfg,
  cfg_dup cfg = false -> forallb (fun kv => declares_default decls (fst kv)) cfg = true ->
  exists M S, configure decls cfg = Some M /\ spec_configure decls cfg = Some S /\
              forall k, env_get M k = env_get S k.
Proof. exact with_default_only. Qed.
Print Assumptions C37_with_default_only.
Theorem C37_refuted_with : exists decls cfg, known_K2 decls cfg = true /\ configure decls cfg <> spec_configure decls cfg.
Proof. exists [("w", 2%Z, false)], [("w", 5%Z)]. exact refuted_with. Qed.
Print Assumptions C37_refuted_with.
(* configuring the same variable twice is an error *)
Theorem C37_config_twice : forall decls cfg, cfg_dup cfg = true -> configure decls cfg = None.
Proof. exact config_twice. Qed.
Print Assumptions C37_config_twice.

(* a user module forwarding a built-in module: outside class K4 the guard behaves as the reference says, for
   every action, prefix and show/hide list; in particular a plain or hide-filtered forward keeps the guard *)
Theorem C37_forwarded_builtin : forall a pfx e, known_K4 a pfx e = false ->
  fwd_builtin a pfx e = spec_fwd_builtin a pfx e.
Proof. exact fwd_builtin_ok. Qed.
Print Assumptions C37_forwarded_builtin.
Theorem C37_forwarded_builtin_plain_guard : forall e, allow_var e marker_name = true ->
  fwd_builtin FAssignBuiltin None e = FErr.
Proof. exact fwd_builtin_plain_guard. Qed.
Print Assumptions C37_forwarded_builtin_plain_guard.
Theorem C37_refuted_forwarded_builtin : exists a pfx e, known_K4 a pfx e = true /\ fwd_builtin a pfx e <> spec_fwd_builtin a pfx e.
Proof. exists FAssignBuiltin, (Some "m-"%string), EAll. destruct refuted_fwd_builtin as (A & B & _). split; assumption. Qed.
Print Assumptions C37_refuted_forwarded_builtin.

(* built-in modules can be neither configured nor assigned to (the model's constants; the tie is the
   correspondence on sass:math) *)
Theorem C37_builtin_guard : builtin_configure true = false /\ builtin_assign = false.
Proof. split; reflexivity. Qed.
Print Assumptions C37_builtin_guard.

Example C37_nonvacuous :
  default_namespace "sub/_my_lib.scss" = "my-lib"
  /\ forward_view lib None (EHide ["f"; "m"] ["v"]) = mkMem [("w", 2%Z)] ["g"] ["n"]
  /\ forward_view lib (Some "p-") (EShow ["p-f"] ["p-v"]) = mkMem [("p-v", 1%Z)] ["p-f"] []
  /\ configure [("v", 1%Z, true); ("w", 2%Z, false)] [("v", 5%Z)] = Some [("v", 5%Z); ("w", 2%Z)].
Proof. vm_compute. repeat split. Qed.
