(* C13 - Map keys follow `==`; OrderMap; map functions.
   Property theorems only; proofs live in Proofs/C13.v.
   The OrderMap theorems hold for EVERY key type and EVERY key equality `eqb`
   (eqb stored probe), hence for rsass's == whatever its defects; the places
   where == must be an equivalence say so as a hypothesis on the keys involved,
   which C13_pool_equiv discharges for the pool the correspondence runs on. *)
From Coq Require Import String List NArith ZArith Bool.
From RV Require Import Base.Text Base.ListX Model.CssStr Model.ValueLite Model.OrderMap Spec.MapSpec Run.C13 Proofs.C13.
Import ListNotations.
Local Open Scope list_scope.

(* invariant over arbitrary programs: whatever literal and operation sequence,
   if the program runs, the final map (hence every intermediate one: prefixes are
   programs) has no stored key == a key stored after it *)
Theorem C13_inv : forall c fin ts, run_model c = Some (fin, ts) -> NoDupKeys veq (state_map fin).
Proof. exact inv. Qed.
Print Assumptions C13_inv.

(* a map literal evaluates (to itself) exactly when no key is == a later key; else "Duplicate key." *)
Theorem C13_literal_dup : forall (K V : Type) (eqb : K -> K -> bool) (l : list (K * V)),
  (om_literal eqb [] l = Some l <-> NoDupK eqb (keys l)) /\
  (om_literal eqb [] l = None <-> ~ NoDupK eqb (keys l)).
Proof. intros. apply literal_dup. Qed.
Print Assumptions C13_literal_dup.

(* get finds exactly the first stored key == the probe *)
Theorem C13_lookup : forall (K V : Type) (eqb : K -> K -> bool) (m : list (K * V)) k v,
  om_get eqb m k = Some v <->
  exists a k' b, m = a ++ (k', v) :: b /\ eqb k' k = true /\ has eqb (keys a) k = false.
Proof. intros. apply lookup. Qed.
Print Assumptions C13_lookup.

Theorem C13_has_key : forall (K V : Type) (eqb : K -> K -> bool) (m : list (K * V)) k,
  om_contains_key eqb m k = true <-> exists v, om_get eqb m k = Some v.
Proof. intros. apply has_key_get. Qed.
Print Assumptions C13_has_key.

(* after set, get returns the value (k == k excludes NaN keys) *)
Theorem C13_set_get : forall (K V : Type) (eqb : K -> K -> bool) (m : list (K * V)) k v,
  eqb k k = true -> om_get eqb (fst (om_insert eqb m k v)) k = Some v.
Proof. intros. now apply set_get. Qed.
Print Assumptions C13_set_get.

(* set changes only the value of the first matching entry (stored key and position kept) or appends *)
Theorem C13_set_shape : forall (K V : Type) (eqb : K -> K -> bool) (m : list (K * V)) k v,
  (has eqb (keys m) k = false -> fst (om_insert eqb m k v) = m ++ [(k, v)]) /\
  (has eqb (keys m) k = true ->
     exists a k' v' b, m = a ++ (k', v') :: b /\ has eqb (keys a) k = false /\ eqb k' k = true
                       /\ fst (om_insert eqb m k v) = a ++ (k', v) :: b).
Proof. intros. apply set_shape. Qed.
Print Assumptions C13_set_shape.

Theorem C13_set_others : forall (K V : Type) (eqb : K -> K -> bool) (m : list (K * V)) k v k2,
  eqb k k2 = false -> (forall s, In s (keys m) -> eqb s k = true -> eqb s k2 = false) ->
  om_get eqb (fst (om_insert eqb m k v)) k2 = om_get eqb m k2.
Proof. intros. now apply set_others. Qed.
Print Assumptions C13_set_others.

(* remove keeps the invariant always; when the stored keys == k are == each other it
   removes every entry == k and k is no longer found *)
Theorem C13_remove : forall (K V : Type) (eqb : K -> K -> bool) (m : list (K * V)) k,
  (NoDupKeys eqb m -> NoDupKeys eqb (fst (om_remove eqb m k))) /\
  (NoDupKeys eqb m -> euclid_on eqb (keys m) k ->
     fst (om_remove eqb m k) = filter (fun kv => negb (eqb (fst kv) k)) m /\
     om_contains_key eqb (fst (om_remove eqb m k)) k = false).
Proof. intros. split; [apply remove_nodup|]. intros. split; [now apply remove_filter|now apply remove_gone]. Qed.
Print Assumptions C13_remove.

(* merge: m1's keys in m1's order, then the keys of m2 not == a key of m1, in m2's order *)
Theorem C13_merge_keys : forall (K V : Type) (eqb : K -> K -> bool) (m1 m2 : list (K * V)),
  NoDupKeys eqb m2 ->
  keys (om_merge eqb m1 m2) = keys m1 ++ filter (fun k => negb (has eqb (keys m1) k)) (keys m2).
Proof. intros. now apply merge_keys. Qed.
Print Assumptions C13_merge_keys.

(* merge: m2's value wins *)
Theorem C13_merge_get : forall (K V : Type) (eqb : K -> K -> bool) (m1 m2 : list (K * V)) k,
  equiv_on eqb (k :: keys m1 ++ keys m2) -> NoDupKeys eqb m2 ->
  om_get eqb (om_merge eqb m1 m2) k =
  match om_get eqb m2 k with Some v => Some v | None => om_get eqb m1 k end.
Proof. intros. now apply merge_get. Qed.
Print Assumptions C13_merge_get.

(* rsass's == restricted to the 33 pool keys (numbers in several spellings and units, quoted and
   unquoted strings, lists, maps) is an equivalence relation *)
Theorem C13_pool_equiv : equiv_on veq key_pool.
Proof. exact pool_equiv. Qed.
Print Assumptions C13_pool_equiv.

(* hence, for maps of any size over pool keys, the merge law holds outright *)
Theorem C13_pool_merge_get : forall (m1 m2 : vmap) k,
  incl (k :: keys m1 ++ keys m2) key_pool -> NoDupKeys veq m2 ->
  om_get veq (v_merge m1 m2) k =
  match om_get veq m2 k with Some v => Some v | None => om_get veq m1 k end.
Proof.
  intros m1 m2 k I N. apply merge_get; [|exact N].
  apply (equiv_on_incl veq key_pool); [exact I|exact pool_equiv].
Qed.
Print Assumptions C13_pool_merge_get.

(* the operations of the model ARE the reference semantics where == is an equivalence *)
Theorem C13_refines_set : forall (K V : Type) (eqb : K -> K -> bool) (m : list (K * V)) k v,
  equiv_on eqb (k :: keys m) -> NoDupKeys eqb m -> fst (om_insert eqb m k v) = sp_set eqb m k v.
Proof. intros. now apply refines_set. Qed.
Print Assumptions C13_refines_set.

Theorem C13_refines_remove : forall (K V : Type) (eqb : K -> K -> bool) (m : list (K * V)) k,
  equiv_on eqb (k :: keys m) -> NoDupKeys eqb m -> fst (om_remove eqb m k) = sp_remove eqb m k.
Proof. intros. now apply refines_remove. Qed.
Print Assumptions C13_refines_remove.

Theorem C13_refines_literal : forall (K V : Type) (eqb : K -> K -> bool) (l : list (K * V)),
  (forall a b, In a (keys l) -> In b (keys l) -> eqb a b = eqb b a) ->
  (om_literal eqb [] l = None <-> sp_has_dup eqb l = true).
Proof. intros. now apply refines_literal. Qed.
Print Assumptions C13_refines_literal.

(* map equality.  Full statement: == on maps is the order-insensitive reference equality *)
Definition C13_eq_statement : Prop :=
  forall a b : vmap, veq (VMap a) (VMap b) = sp_eq veq veq a b.

(* what holds: rsass's map == implies equal size and inclusion of entries *)
Theorem C13_eq_sound_partial : forall a b, veq (VMap a) (VMap b) = true ->
  length a = length b /\ sp_sub veq veq a b = true.
Proof. intros. now apply eq_sound. Qed.
Print Assumptions C13_eq_sound_partial.

(* F20: (a: 1, b: 2) == (b: 2, a: 1) is false in rsass *)
Theorem C13_refuted_eq_order : ~ C13_eq_statement.
Proof. intros H. destruct refuted_eq_order as [A B]. rewrite <- (H w_a w_b) in A. congruence. Qed.
Print Assumptions C13_refuted_eq_order.

(* map.set with a key path moves the outer key last instead of updating in place *)
Theorem C13_refuted_set_path_order :
  exists m', set_inner w_m [kp 13; kp 16] (vp 2) = Some m' /\
             bytes_eqb (inspect (VMap m')) (inspect (VMap (sp_set_path w_m [kp 13; kp 16] (vp 2)))) = false.
Proof. exact refuted_set_path_order. Qed.
Print Assumptions C13_refuted_set_path_order.

(* the hypotheses are satisfiable: a two-entry pool map and a pool key *)
Example C13_hyps_sat :
  equiv_on veq (kp 14 :: keys w_a ++ keys w_b) /\ NoDupKeys veq w_b /\ incl (kp 14 :: keys w_a ++ keys w_b) key_pool.
Proof.
  assert (I : incl (kp 14 :: keys w_a ++ keys w_b) key_pool).
  { intros x Hx. cbn in Hx. repeat (destruct Hx as [<-|Hx]; [vm_compute; tauto|]). destruct Hx. }
  split; [|split; [|exact I]].
  - apply (equiv_on_incl veq key_pool); [exact I|exact pool_equiv].
  - cbn. repeat split; intros k' H; repeat (destruct H as [<-|H]; [vm_compute; reflexivity|]); destruct H.
Qed.
