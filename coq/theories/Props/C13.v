(* C13 - Map keys follow `==`; OrderMap; map functions.
   Property theorems only; proofs live in Proofs/C13.v.
   The OrderMap theorems hold for EVERY key type and EVERY key equality `eqb`
   (eqb stored probe), hence for rsass's == whatever its defects; the places
   where == must be an equivalence say so as a hypothesis on the keys involved,
   which C13_pool_equiv discharges for the pool the correspondence runs on. *)
From Coq Require Import String List NArith ZArith Bool Permutation.
From RV Require Import Base.Text Base.ListX Model.CssStr Model.ValueLite Model.OrderMap Spec.MapSpec Run.C13 Proofs.C13.
Import ListNotations.
Local Open Scope list_scope.

(* invariant over arbitrary programs: whatever literal and operation sequence,
   if the program runs, the final map (hence every intermediate one: prefixes are
   programs) has no stored key == a key stored after it *)
Theorem C13_inv : forall c fin ts, run_model c = Some (fin, ts) -> NoDupKeys veq (state_map fin).
Proof. exact inv. Qed.
Print Assumptions C13_inv.

(* a map literal evaluates (to itself) exactly when no key is == a later key; else "Duplicate key." *)
Theorem C13_literal_dup : forall (K V : Type) (eqb : K -> K -> bool) (l : list (K * V)),
  (om_literal eqb [] l = Some l <-> NoDupK eqb (keys l)) /\
  (om_literal eqb [] l = None <-> ~ NoDupK eqb (keys l)).
Proof. intros. apply literal_dup. Qed.
Print Assumptions C13_literal_dup.

(* get finds exactly the first stored key == the probe *)
Theorem C13_lookup : forall (K V : Type) (eqb : K -> K -> bool) (m : list (K * V)) k v,
  om_get eqb m k = Some v <->
  exists a k' b, m = a ++ (k', v) :: b /\ eqb k' k = true /\ has eqb (keys a) k = false.
Proof. intros. apply lookup. Qed.
Print Assumptions C13_lookup.

Theorem C13_has_key : forall (K V : Type) (eqb : K -> K -> bool) (m : list (K * V)) k,
  om_contains_key eqb m k = true <-> exists v, om_get eqb m k = Some v.
Proof. intros. apply has_key_get. Qed.
Print Assumptions C13_has_key.

(* after set, get returns the value (k == k excludes NaN keys) *)
Theorem C13_set_get : forall (K V : Type) (eqb : K -> K -> bool) (m : list (K * V)) k v,
  eqb k k = true -> om_get eqb (fst (om_insert eqb m k v)) k = Some v.
Proof. intros. now apply set_get. Qed.
Print Assumptions C13_set_get.

(* set changes only the value of the first matching entry (stored key and position kept) or appends *)
Theorem C13_set_shape : forall (K V : Type) (eqb : K -> K -> bool) (m : list (K * V)) k v,
  (has eqb (keys m) k = false -> fst (om_insert eqb m k v) = m ++ [(k, v)]) /\
  (has eqb (keys m) k = true ->
     exists a k' v' b, m = a ++ (k', v') :: b /\ has eqb (keys a) k = false /\ eqb k' k = true
                       /\ fst (om_insert eqb m k v) = a ++ (k', v) :: b).
Proof. intros. apply set_shape. Qed.
Print Assumptions C13_set_shape.

Theorem C13_set_others : forall (K V : Type) (eqb : K -> K -> bool) (m : list (K * V)) k v k2,
  eqb k k2 = false -> (forall s, In s (keys m) -> eqb s k = true -> eqb s k2 = false) ->
  om_get eqb (fst (om_insert eqb m k v)) k2 = om_get eqb m k2.
Proof. intros. now apply set_others. Qed.
Print Assumptions C13_set_others.

(* remove keeps the invariant always; when the stored keys == k are == each other it
   removes every entry == k and k is no longer found *)
Theorem C13_remove : forall (K V : Type) (eqb : K -> K -> bool) (m : list (K * V)) k,
  (NoDupKeys eqb m -> NoDupKeys eqb (fst (om_remove eqb m k))) /\
  (NoDupKeys eqb m -> euclid_on eqb (keys m) k ->
     fst (om_remove eqb m k) = filter (fun kv => negb (eqb (fst kv) k)) m /\
     om_contains_key eqb (fst (om_remove eqb m k)) k = false).
Proof. intros. split; [apply remove_nodup|]. intros. split; [now apply remove_filter|now apply remove_gone]. Qed.
Print Assumptions C13_remove.

(* merge: m1's keys in m1's order, then the keys of m2 not == a key of m1, in m2's order *)
Theorem C13_merge_keys : forall (K V : Type) (eqb : K -> K -> bool) (m1 m2 : list (K * V)),
  NoDupKeys eqb m2 ->
  keys (om_merge eqb m1 m2) = keys m1 ++ filter (fun k => negb (has eqb (keys m1) k)) (keys m2).
Proof. intros. now apply merge_keys. Qed.
Print Assumptions C13_merge_keys.

(* merge: m2's value wins *)
Theorem C13_merge_get : forall (K V : Type) (eqb : K -> K -> bool) (m1 m2 : list (K * V)) k,
  equiv_on eqb (k :: keys m1 ++ keys m2) -> NoDupKeys eqb m2 ->
  om_get eqb (om_merge eqb m1 m2) k =
  match om_get eqb m2 k with Some v => Some v | None => om_get eqb m1 k end.
Proof. intros. now apply merge_get. Qed.
Print Assumptions C13_merge_get.

(* rsass's == restricted to the 33 pool keys (numbers in several spellings and units, quoted and
   unquoted strings, lists, maps) is an equivalence relation *)
Theorem C13_pool_equiv : equiv_on veq key_pool.
Proof. exact pool_equiv. Qed.
Print Assumptions C13_pool_equiv.

(* hence, for maps of any size over pool keys, the merge law holds outright *)
Theorem C13_pool_merge_get : forall (m1 m2 : vmap) k,
  incl (k :: keys m1 ++ keys m2) key_pool -> NoDupKeys veq m2 ->
  om_get veq (v_merge m1 m2) k =
  match om_get veq m2 k with Some v => Some v | None => om_get veq m1 k end.
Proof.
  intros m1 m2 k I N. apply merge_get; [|exact N].
  apply (equiv_on_incl veq key_pool); [exact I|exact pool_equiv].
Qed.
Print Assumptions C13_pool_merge_get.

(* the operations of the model ARE the reference semantics where == is an equivalence *)
Theorem C13_refines_set : forall (K V : Type) (eqb : K -> K -> bool) (m : list (K * V)) k v,
  equiv_on eqb (k :: keys m) -> NoDupKeys eqb m -> fst (om_insert eqb m k v) = sp_set eqb m k v.
Proof. intros. now apply refines_set. Qed.
Print Assumptions C13_refines_set.

Theorem C13_refines_remove : forall (K V : Type) (eqb : K -> K -> bool) (m : list (K * V)) k,
  equiv_on eqb (k :: keys m) -> NoDupKeys eqb m -> fst (om_remove eqb m k) = sp_remove eqb m k.
Proof. intros. now apply refines_remove. Qed.
Print Assumptions C13_refines_remove.

Theorem C13_refines_literal : forall (K V : Type) (eqb : K -> K -> bool) (l : list (K * V)),
  (forall a b, In a (keys l) -> In b (keys l) -> eqb a b = eqb b a) ->
  (om_literal eqb [] l = None <-> sp_has_dup eqb l = true).
Proof. intros. now apply refines_literal. Qed.
Print Assumptions C13_refines_literal.

(* map.set with a key path never moves or renames a stored key *)
Theorem C13_set_path_keys : forall ks m x m', set_inner m ks x = Some m' ->
  match ks with
  | [] => False
  | k :: _ => keys m' = if has veq (keys m) k then keys m else keys m ++ [k]
  end.
Proof. exact set_path_keys. Qed.
Print Assumptions C13_set_path_keys.

(* map equality.  rsass's Map == Map on the model IS OrderMap equality with == on keys and values ... *)
Theorem C13_map_eq_is_om_eq : forall a b, veq (VMap a) (VMap b) = om_eq veq veq a b.
Proof. exact veq_map_om_eq. Qed.
Print Assumptions C13_map_eq_is_om_eq.

(* ... which, for every key and value equality, holds exactly when the maps have the same size and every
   entry of the left map has an == key mapped to an == value in the right map ... *)
Theorem C13_eq_spec : forall (K V : Type) (eqb : K -> K -> bool) (veqv : V -> V -> bool) (a b : list (K * V)),
  NoDupKeys eqb b -> (forall k, In k (keys a) -> euclid_on eqb (keys b) k) ->
  (om_eq eqb veqv a b = true <->
   length a = length b /\
   forall k v, In (k, v) a -> exists k' v', In (k', v') b /\ eqb k' k = true /\ veqv v' v = true).
Proof. intros. now apply om_eq_spec. Qed.
Print Assumptions C13_eq_spec.

(* ... and does not depend on the order of the entries of either operand *)
Theorem C13_eq_order_left : forall (K V : Type) (eqb : K -> K -> bool) (veqv : V -> V -> bool) (a a' b : list (K * V)),
  Permutation a a' -> om_eq eqb veqv a b = om_eq eqb veqv a' b.
Proof. intros. now apply om_eq_perm_l. Qed.
Print Assumptions C13_eq_order_left.

Theorem C13_eq_order_right : forall (K V : Type) (eqb : K -> K -> bool) (veqv : V -> V -> bool) (a b b' : list (K * V)),
  Permutation b b' -> NoDupKeys eqb b -> NoDupKeys eqb b' ->
  (forall k, In k (keys a) -> euclid_on eqb (keys b) k) ->
  om_eq eqb veqv a b = om_eq eqb veqv a b'.
Proof. intros. now apply om_eq_perm_r. Qed.
Print Assumptions C13_eq_order_right.

(* for maps of any size over the pool keys, with rsass's own ==: reordering either operand changes nothing *)
Theorem C13_pool_eq_order : forall a a' b b',
  incl (keys a ++ keys b) key_pool -> Permutation a a' -> Permutation b b' ->
  NoDupKeys veq b -> NoDupKeys veq b' ->
  veq (VMap a) (VMap b) = veq (VMap a') (VMap b').
Proof. exact pool_eq_order. Qed.
Print Assumptions C13_pool_eq_order.

(* the former F20 witness, with differently written keys: (a: 1, b: 2) == ("b": 2, "a": 1), both ways *)
Example C13_eq_order_example : veq (VMap w_a) (VMap w_b) = true /\ veq (VMap w_b) (VMap w_a) = true.
Proof. exact eq_order_example. Qed.

(* the hypotheses are satisfiable: a two-entry pool map and a pool key *)
Example C13_hyps_sat :
  equiv_on veq (kp 14 :: keys w_a ++ keys w_b) /\ NoDupKeys veq w_b /\ incl (kp 14 :: keys w_a ++ keys w_b) key_pool.
Proof.
  assert (I : incl (kp 14 :: keys w_a ++ keys w_b) key_pool).
  { intros x Hx. cbn in Hx. repeat (destruct Hx as [<-|Hx]; [vm_compute; tauto|]). destruct Hx. }
  split; [|split; [|exact I]].
  - apply (equiv_on_incl veq key_pool); [exact I|exact pool_equiv].
  - cbn. repeat split; intros k' H; repeat (destruct H as [<-|H]; [vm_compute; reflexivity|]); destruct H.
Qed.
