(* C06 - unique-id() is unique and random() stays in range.
   Property theorems only; proofs live in Proofs/C06.v.  `uidp` is the parameter record built
   from Gen/Consts.v (counter width, increment, radix, case, prefix, suffix as found in string.rs),
   `uid_mult` the multiplier of the process id; rnd_* / pos_* are the constants of math.rs random
   and check::positive_int. *)
From Coq Require Import String List ZArith NArith Bool.
From RV Require Import Base.Text Base.F64 Gen.Consts Model.Conc Model.Random Spec.CssIdent Run.C06 Proofs.C06.
Import ListNotations.

(* the critical section, check::int and Number::into_integer still have the modelled shape *)
Theorem C06_shapes : shapes_ok = true.
Proof. exact shapes. Qed.
Print Assumptions C06_shapes.

(* the printed form of a counter value determines the value *)
Theorem C06_format_injective : forall v w : N, (v < 2 ^ 64 -> w < 2 ^ 64 ->
  id_bytes uidp v = id_bytes uidp w -> v = w)%N.
Proof. exact format_injective. Qed.
Print Assumptions C06_format_injective.

(* EVERY schedule (one entry = one critical section of that thread), any number of threads and
   calls, any initial counter value: all returned identifiers are pairwise distinct unless the
   64-bit counter wraps *)
Theorem C06_unique : forall (c0 : N) (sched : list nat), (c0 + N.of_nat (length sched) < 2 ^ 64)%N ->
  NoDup (all_ids uidp (run_atomic uidp c0 sched)).
Proof. exact unique. Qed.
Print Assumptions C06_unique.

(* with the initial value the code uses (pid * 0xa01, pid a u32): fewer than 2^64 - 2^44 calls *)
Theorem C06_unique_pid : forall (pid : N) (sched : list nat), (pid < 2 ^ 32)%N ->
  (N.of_nat (length sched) < 2 ^ 64 - 2 ^ 44)%N ->
  NoDup (all_ids uidp (run_atomic uidp (pid * uid_mult) sched)).
Proof. exact unique_pid. Qed.
Print Assumptions C06_unique_pid.

(* seen from the threads: no thread gets an id twice and no two threads share an id *)
Theorem C06_unique_per_thread : forall (c0 : N) (sched : list nat), (c0 + N.of_nat (length sched) < 2 ^ 64)%N ->
  (forall t, NoDup (ids_of_thread uidp (run_atomic uidp c0 sched) t))
  /\ (forall t t' id, In id (ids_of_thread uidp (run_atomic uidp c0 sched) t) ->
                      In id (ids_of_thread uidp (run_atomic uidp c0 sched) t') -> t = t').
Proof. exact unique_per_thread. Qed.
Print Assumptions C06_unique_per_thread.

(* the model with separate acquire / increment / read / unlock steps returns what the atomic
   model returns for some schedule that is not longer *)
Theorem C06_fine_refines : forall p c sched,
  exists s, fine_run p (c, Free) sched = run_atomic p c s /\ (length s <= length sched)%nat.
Proof. exact fine_refines. Qed.
Print Assumptions C06_fine_refines.

Theorem C06_unique_fine : forall (c0 : N) (sched : list nat), (c0 + N.of_nat (length sched) < 2 ^ 64)%N ->
  NoDup (all_ids uidp (fine_run uidp (c0, Free) sched)).
Proof. exact unique_fine. Qed.
Print Assumptions C06_unique_fine.

(* every identifier the function can return is a CSS identifier *)
Theorem C06_ident : forall v : N, is_css_ident (id_bytes uidp v) = true.
Proof. exact ident. Qed.
Print Assumptions C06_ident.

(* the values handed out are the contiguous interval c0+1 .. c0+n in schedule order
   (what the correspondence check looks for in the implementation's answers) *)
Theorem C06_counter_interval : forall (c0 : N) (sched : list nat), (c0 + N.of_nat (length sched) < 2 ^ 64)%N ->
  map snd (run_atomic uidp c0 sched) = map (fun k => (c0 + N.of_nat k)%N) (seq 1 (length sched)).
Proof. exact counter_interval. Qed.
Print Assumptions C06_counter_interval.

(* random(): in [0,1) under the fastrand::f64 contract *)
Theorem C06_random_unit : forall (rng_state : Type) (rng_f64 : rng_state -> f64),
  (forall s, fle f_zero (rng_f64 s) = true /\ flt (rng_f64 s) f_one = true) ->
  forall s, fle f_zero (random_unit rng_state rng_f64 s) = true /\ flt (random_unit rng_state rng_f64 s) f_one = true.
Proof. exact random_unit_range. Qed.
Print Assumptions C06_random_unit.

(* random(limit): an integer in [1, limit], and the i64 addition cannot overflow, under the
   fastrand::i64 contract; `bound` is what check::positive_int returned *)
Theorem C06_random_limit : forall (rng_state : Type) (rng_i64 : rng_state -> Z -> Z -> Z),
  (forall s lo hi, lo < hi -> lo <= rng_i64 s lo hi < hi)%Z ->
  forall s bound, positive_ok bound = true -> (bound <= i64_max)%Z ->
  (1 <= random_limit rng_state rng_i64 s bound <= bound /\ random_limit rng_state rng_i64 s bound <= i64_max)%Z.
Proof. exact random_limit_range. Qed.
Print Assumptions C06_random_limit.

Theorem C06_random_limit_rejects : forall x v, into_integer x = Some v -> (v <= 0)%Z -> positive_int x = inr 1%Z.
Proof. exact random_limit_rejects. Qed.
Print Assumptions C06_random_limit_rejects.

(* up to 2^53 the f64 handed back denotes exactly that integer *)
Theorem C06_random_out_exact : forall r, (1 <= random_int r <= 2 ^ 53)%Z ->
  f_trunc_Z (random_out r) = Some (random_int r) /\ f_is_finite (random_out r) = true.
Proof. exact random_out_exact. Qed.
Print Assumptions C06_random_out_exact.

(* non-vacuity: 3 threads x 2 calls, the model returns six distinct identifiers *)
Example C06_nonvacuous :
  all_ids uidp (run_atomic uidp 4096 [0; 1; 2; 1; 0; 2]%nat)
  = map Base.Text.bytes_of_string ["x1001"; "x1002"; "x1003"; "x1004"; "x1005"; "x1006"]%string
  /\ (4096 + N.of_nat (length [0; 1; 2; 1; 0; 2]%nat) < 2 ^ 64)%N
  /\ positive_ok 7 = true.
Proof. vm_compute. repeat split. Qed.
