(* C20 - Nested at-rules bubble and @at-root escapes correctly.  Theorems only.
   All statements are about the model of output/cssdest.rs + transform.rs
   (Model/OutDest.v) and hold for ALL selectors t, queries / names, arguments and
   declaration lists ds1 ds2 ds3 (sdecls = the declarations as statements,
   idecls = as CSS items, rule t ds = the style rule `t { ds }`, nothing if ds is empty). *)
From Coq Require Import List NArith Bool.
From RV Require Spec.CssTok.
From RV Require Import Base.Text Model.Out Model.OutDest Spec.Bubble Proofs.C20.
Import ListNotations.
Local Open Scope N_scope.

(* consecutive declarations are collected in order in the open rule *)
Theorem C20_decls_collect : forall n ms c cenv ctx ds s b rest root lost,
  run_body (eval_item (S n) ms c cenv ctx) (sdecls ds) (mkD (FRule (s, b) :: rest) root lost)
  = Ok (mkD (FRule (s, b ++ idecls ds) :: rest) root lost).
Proof. exact decls_rule. Qed.
Print Assumptions C20_decls_collect.

(* t { ds1; @media q { ds2 } ds3 }  ==>  t {ds1}  @media q { t {ds2} }  t {ds3} *)
Theorem C20_bubble_media : forall n t q ds1 ds2 ds3,
  eval_program (S (S (S n))) false
    (mkProg [] [SRule [SPlain t] (sdecls ds1 ++ [SMedia q (sdecls ds2)] ++ sdecls ds3)])
  = Ok (top (rule t ds1 ++ [IMedia (MName q) (rule t ds2)] ++ rule t ds3 ++ [ISep])).
Proof. exact bubble_media. Qed.
Print Assumptions C20_bubble_media.

(* the same for @supports and unknown at-rules (every name is_flat_rule rejects) *)
Theorem C20_bubble_atrule : forall n t name args ds1 ds2 ds3,
  is_flat_rule name = false -> bytes_eqb name keyframes_name = false ->
  eval_program (S (S (S n))) false
    (mkProg [] [SRule [SPlain t] (sdecls ds1 ++ [SAtR name args (Some (sdecls ds2))] ++ sdecls ds3)])
  = Ok (top (rule t ds1 ++ [IAt name (option_map same_leaf args) (Some [IRule [same_leaf t] (idecls ds2)])]
             ++ rule t ds3 ++ [ISep])).
Proof. exact bubble_atrule. Qed.
Print Assumptions C20_bubble_atrule.

(* t { @keyframes k { f { ds } } }  ==>  @keyframes k { f {ds} }   (f is not prefixed by t) *)
Theorem C20_keyframes : forall n t args f ds,
  eval_program (S (S (S (S n)))) false
    (mkProg [] [SRule [SPlain t] [SAtR keyframes_name args (Some [SRule [SPlain f] (sdecls ds)])]])
  = Ok (top ([IAt keyframes_name (option_map same_leaf args) (Some (rule f ds))] ++ [ISep])).
Proof. exact keyframes_unprefixed. Qed.
Print Assumptions C20_keyframes.

(* t { @at-root { u { ds } } }  ==>  u {ds} *)
Theorem C20_at_root : forall n t u ds,
  eval_program (S (S (S (S n)))) false
    (mkProg [] [SRule [SPlain t] [SAtRoot None [SRule [SPlain u] (sdecls ds)]]])
  = Ok (top (rule u ds ++ [ISep])).
Proof. exact at_root_plain. Qed.
Print Assumptions C20_at_root.

(* t { @at-root &x { ds } }  ==>  tx {ds}   (`&` resolved, not nested under t) *)
Theorem C20_at_root_selector : forall n t x ds,
  eval_program (S (S (S n))) false
    (mkProg [] [SRule [SPlain t] [SAtRoot (Some [SSuffix x]) (sdecls ds)]])
  = Ok (top (rule (append_suffix t x) ds ++ [ISep])).
Proof. exact at_root_selector. Qed.
Print Assumptions C20_at_root_selector.

(* F33: `in declaration order` is false of the faithful model when a direct
   declaration follows a nested rule inside a bubbled at-rule *)
Theorem C20_refuted_order : exists p o d,
  compile 64 Expanded p = Ok (o, 0%nat) /\ reference p = Some d
  /\ bytes_eqb (CssTok.normalize o) (CssTok.normalize (into_buffer Expanded d)) = false.
Proof. exists order_witness. exact refuted_order. Qed.
Print Assumptions C20_refuted_order.

Example shapes_nontrivial :
  is_flat_rule [115;117;112;112;111;114;116;115] = false
  /\ bytes_eqb [115;117;112;112;111;114;116;115] keyframes_name = false.
Proof. split; reflexivity. Qed.
