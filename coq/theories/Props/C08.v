(* C08 - Expanded and compressed styles describe the same stylesheet.  Theorems only.
   `sq` erases the layout bytes (space, newline, `;`).  The theorems say that the
   two writers of Model/Out.v (the model tied to rsass by C07's byte-exact
   correspondence) differ in layout only, for ALL css item trees without comment
   items whose leaf texts have style renderings that agree up to layout. *)
From Coq Require Import List NArith Bool.
From RV Require Import Base.Text Model.Out Proofs.C07 Proofs.C08.
Import ListNotations.
Local Open Scope N_scope.

(* the item writers: same bytes up to layout, same order *)
Theorem C08_writer_layout : forall d, data_same d = true ->
  sq (rev (body_buf Expanded d)) = sq (rev (body_buf Compressed d)).
Proof. exact writer_layout. Qed.
Print Assumptions C08_writer_layout.

(* into_buffer adds only layout (and, for non-ASCII text, the style's marker: C07_marker) *)
Theorem C08_framing_layout : forall s b, is_ascii_b b = true -> sq (finish s b) = sq b.
Proof. exact finish_layout. Qed.
Print Assumptions C08_framing_layout.

Theorem C08_writer_same_sheet : forall d, data_same d = true ->
  is_ascii_b (body_buf Expanded d) = true -> is_ascii_b (body_buf Compressed d) = true ->
  sq (into_buffer Expanded d) = sq (into_buffer Compressed d).
Proof. exact writer_same_sheet. Qed.
Print Assumptions C08_writer_same_sheet.

(* a declaration value is written with its line breaks turned into spaces in both styles *)
Theorem C08_value_newlines : forall v, sq (nl_to_space v) = sq v.
Proof. exact sq_nl_to_space. Qed.
Print Assumptions C08_value_newlines.

Definition sample : cssdata :=
  mkData [] [IMedia (MComma [MName [115]; MCond [119] (same_leaf [49;112;120])])
               [IRule [same_leaf [97]; mkLeaf [98;32;62;32;99] [98;62;99]]
                  [IProp [120] (mkLeaf [97;44;32;98] [97;44;98]); ICustom [45;45;118] [32;123;97;125] false];
                IAt [102] (Some (same_leaf [103])) (Some [])]; ISep].
Example sample_ok : data_same sample = true
  /\ is_ascii_b (body_buf Expanded sample) = true /\ is_ascii_b (body_buf Compressed sample) = true.
Proof. repeat split; vm_compute; reflexivity. Qed.
