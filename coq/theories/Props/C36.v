(* C36 - Comments are preserved as Sass specifies.  Theorems only. *)
From Coq Require Import List NArith Bool.
From RV Require Import Base.Text Model.Out Model.OutDest Spec.Reach Proofs.C07 Proofs.C36.
Import ListNotations.
Local Open Scope N_scope.

(* push_comment cannot fail, whatever destinations are open (rule, nested
   property, at-rule, @media, top level): exactly one more comment is stored and
   the stack of open destinations keeps its height *)
Theorem C36_push_comment_total : forall fs root t,
  let (fs', root') := push_comment fs root (IComment t) in
  ncom_state fs' root' = S (ncom_state fs root) /\ length fs' = length fs.
Proof. exact push_comment_count. Qed.
Print Assumptions C36_push_comment_total.

(* expanded: the comment arm of handle_item stores the comment and swallows no error *)
Theorem C36_expanded_comment_kept : forall n ms cenv ctx st t,
  exists st', eval_item (S n) ms false cenv ctx st (SComment t) = Ok st'
    /\ ncom_state (d_frames st') (d_root st') = S (ncom_state (d_frames st) (d_root st))
    /\ d_lost st' = d_lost st.
Proof. exact comment_arm_expanded. Qed.
Print Assumptions C36_expanded_comment_kept.

(* compressed (rsass 775eadf): a comment is kept exactly when its text starts with `!` -
   the statement's compressed clause, at full strength, for every comment text *)
Theorem C36_compressed_bang : forall n ms cenv ctx st t,
  (starts_bang t = false -> eval_item (S n) ms true cenv ctx st (SComment t) = Ok st)
  /\ (starts_bang t = true ->
      exists st', eval_item (S n) ms true cenv ctx st (SComment t) = Ok st'
        /\ ncom_state (d_frames st') (d_root st') = S (ncom_state (d_frames st) (d_root st))
        /\ d_lost st' = d_lost st).
Proof.
  intros. split; [apply comment_arm_compressed_drop | apply comment_arm_compressed_bang].
Qed.
Print Assumptions C36_compressed_bang.

(* `/*! keep */ a{b:c}` keeps its comment in compressed output *)
Theorem C36_bang_example : exists o, compile FUEL Compressed bang_witness = Ok (o, 0%nat)
  /\ comments_of o = [[33;32;107;101;101;112;32]].
Proof. exact bang_kept. Qed.
Print Assumptions C36_bang_example.

(* the writer emits a one-line comment verbatim between `/*` and `*/`, both styles *)
Theorem C36_writer_keeps_comments : forall s ind t b,
  head_is 35 t = false -> nonl t = true ->
  exists pre post, rev (write_comment s ind t b) = rev b ++ pre ++ [47;42] ++ t ++ [42;47] ++ post.
Proof. exact writer_keeps_comment. Qed.
Print Assumptions C36_writer_keeps_comments.

Example hyp_ok : head_is 35 [32;99;32] = false /\ nonl [32;99;32] = true.
Proof. split; reflexivity. Qed.
