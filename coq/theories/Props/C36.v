(* C36 - Comments are preserved as Sass specifies.  Theorems only. *)
From Coq Require Import List NArith Bool.
From RV Require Import Base.Text Model.Out Model.OutDest Spec.Reach Proofs.C07 Proofs.C36.
Import ListNotations.
Local Open Scope N_scope.

(* push_comment cannot fail, whatever destinations are open (rule, nested
   property, at-rule, @media, top level): exactly one more comment is stored and
   the stack of open destinations keeps its height *)
Theorem C36_push_comment_total : forall fs root t,
  let (fs', root') := push_comment fs root (IComment t) in
  ncom_state fs' root' = S (ncom_state fs root) /\ length fs' = length fs.
Proof. exact push_comment_count. Qed.
Print Assumptions C36_push_comment_total.

(* expanded: the comment arm of handle_item stores the comment and swallows no error *)
Theorem C36_expanded_comment_kept : forall n ms cenv ctx st t,
  exists st', eval_item (S n) ms false cenv ctx st (SComment t) = Ok st'
    /\ ncom_state (d_frames st') (d_root st') = S (ncom_state (d_frames st) (d_root st))
    /\ d_lost st' = d_lost st.
Proof. exact comment_arm_expanded. Qed.
Print Assumptions C36_expanded_comment_kept.

(* compressed: EVERY comment is dropped, also those starting with `!` *)
Theorem C36_compressed_drops_all : forall n ms cenv ctx st t,
  eval_item (S n) ms true cenv ctx st (SComment t) = Ok st.
Proof. exact comment_arm_compressed. Qed.
Print Assumptions C36_compressed_drops_all.

(* F28: the statement's compressed clause is false of the faithful model *)
Theorem C36_refuted_compressed_bang : exists p,
  existsb is_bang (comments_in (reach_program FUEL p)) = true
  /\ exists o, compile FUEL Compressed p = Ok (o, 0%nat) /\ comments_of o = [].
Proof.
  exists bang_witness. destruct refuted_bang as [H1 H2]. split.
  - rewrite H2. reflexivity.
  - eexists. split; [exact H1 | vm_compute; reflexivity].
Qed.
Print Assumptions C36_refuted_compressed_bang.

(* the writer emits a one-line comment verbatim between `/*` and `*/`, both styles *)
Theorem C36_writer_keeps_comments : forall s ind t b,
  head_is 35 t = false -> nonl t = true ->
  exists pre post, rev (write_comment s ind t b) = rev b ++ pre ++ [47;42] ++ t ++ [42;47] ++ post.
Proof. exact writer_keeps_comment. Qed.
Print Assumptions C36_writer_keeps_comments.

Example hyp_ok : head_is 35 [32;99;32] = false /\ nonl [32;99;32] = true.
Proof. split; reflexivity. Qed.
