(* C32 - Colour adjustment functions obey their laws.  Theorems only; proofs in Proofs/C32.v.
   Model: Model/ColorFns.v over Model/Color.v (Flocq binary64); color_eq models `==` (impl Ord for Color). *)
From Coq Require Import String List ZArith Bool.
From RV Require Import Base.F64 Base.FMod Gen.Colors Model.Color Model.ColorFns Run.C31 Run.C32 Proofs.C32.
Import ListNotations.
Local Open Scope Z_scope.

(* grayscale: saturation 0, lightness untouched, alpha only re-clamped - every colour, exactly *)
Theorem C32_grayscale : forall c,
  let g := to_hsla (grayscale c) in
  h_sat g = f_zero /\ h_lum g = h_lum (to_hsla c) /\ h_alpha g = fmin (fmax (h_alpha (to_hsla c)) f_zero) f_one.
Proof. exact grayscale_law. Qed.
Print Assumptions C32_grayscale.

(* lighten / darken move the hsl lightness by exactly the amount (one binary64 addition) and clamp
   it to [0, 1]: every colour, every amount, NaN included (full strength since fix e0d618c) *)
Theorem C32_lighten_darken : forall c a,
  h_lum (to_hsla (lighten c a)) = clamp01 (fadd (h_lum (to_hsla c)) a)
  /\ h_lum (to_hsla (darken c a)) = clamp01 (fsub (h_lum (to_hsla c)) a).
Proof. exact lighten_law. Qed.
Print Assumptions C32_lighten_darken.
Theorem C32_lighten_range : forall c a,
  Proofs.C31.in01 f_zero f_one (h_lum (to_hsla (lighten c a)))
  /\ Proofs.C31.in01 f_zero f_one (h_lum (to_hsla (darken c a))).
Proof. exact lighten_range. Qed.
Print Assumptions C32_lighten_range.

(* saturate clamps: the new saturation is in [0, 1] for every colour and amount *)
Theorem C32_saturate_range : forall c a, f_is_nan (fadd (h_sat (to_hsla c)) a) = false ->
  let s := h_sat (to_hsla (saturate c a)) in fle f_zero s = true /\ fle s f_one = true.
Proof. exact saturate_range. Qed.
Print Assumptions C32_saturate_range.

(* opacify / transparentize (Color::set_alpha): alpha in [0, 1] for every colour and amount *)
Theorem C32_alpha_range : forall c a, f_is_nan a = false ->
  fle f_zero (get_alpha (set_alpha c a)) = true /\ fle (get_alpha (set_alpha c a)) f_one = true.
Proof. exact set_alpha_range. Qed.
Print Assumptions C32_alpha_range.

(* identity arguments: change-color(c) = c; adjust-color(c) = c whenever c's alpha is in [0, 1] *)
Theorem C32_identities : forall c,
  change_none c = c
  /\ (fle f_zero (get_alpha c) = true -> fle (get_alpha c) f_one = true -> adjust_none c = c).
Proof. intros c. split. apply change_identity. apply adjust_identity. Qed.
Print Assumptions C32_identities.

(* partial (finite sweep over ALL named colours; F33 is fixed): invert twice, complement twice,
   adjust-hue by 360deg, mix(c, c, 50% | 25%), scale-color(c) and adjust-color(c) all `==` c; and
   darken(lighten(c, 10%), 10%) == c whenever the lightness stays below 100% *)
Theorem C32_named_laws_partial : forall e, In e color_table -> entry_laws e = true.
Proof. exact (Base.ListX.sweep1 color_table entry_laws named_laws_sweep). Qed.
Print Assumptions C32_named_laws_partial.
Theorem C32_named_undo_partial : forall e, In e color_table -> entry_undo e = true.
Proof. exact (Base.ListX.sweep1 color_table entry_undo named_undo_sweep). Qed.
Print Assumptions C32_named_undo_partial.

(* F33's former counterexample holds now *)
Theorem C32_scale_identity_yellow :
  color_eq (scale_none (CRgba (rgba_from_bytes 255 255 0))) (CRgba (rgba_from_bytes 255 255 0)) = Some true.
Proof. exact scale_identity_yellow. Qed.
Print Assumptions C32_scale_identity_yellow.
(* the laws through `==` are still false for colours kept in hsl form (F39) *)
Theorem C32_refuted_hsl_undo :
  let c := sass_hsl (fc 120) (fc 50) (fc 50) f_one in
  color_eq (darken (lighten c tenth) tenth) c = Some false.
Proof. exact refuted_hsl_undo. Qed.
Print Assumptions C32_refuted_hsl_undo.

Example C32_nonvacuous :
  fle f_zero (get_alpha white) = true /\ fle (get_alpha white) f_one = true
  /\ f_is_nan (fadd (h_sat (to_hsla white)) tenth) = false.
Proof. vm_compute. auto. Qed.
