(* C04 - Load URLs resolve to the documented candidate file.
   Property theorems only; proofs live in Proofs/C04.v.
   `isfile` / `lookup` are arbitrary functions: the theorems hold for EVERY file system,
   not only for subsets of the candidate names. *)
From Coq Require Import String List Bool.
From RV Require Import Gen.Candidates Model.Load Model.LoadRun Spec.Resolve Run.C04 Proofs.C04.
Import ListNotations.
Local Open Scope string_scope.
Local Open Scope list_scope.

(* the candidate rules regenerated from Context::find_file are the documented six (@use ..) and,
   for @import, all ten documented names in an order that extends the documented partial order *)
Theorem C04_candidate_tables : tables_ok = true.
Proof. exact tables_ok_true. Qed.
Print Assumptions C04_candidate_tables.

Theorem C04_use_names_documented : forall k b n, is_import k = false ->
  map (expand b n) (cands k) = map (spec_name b n) six.
Proof. intros k b n H. rewrite code_order_names, (use_order_six k H). reflexivity. Qed.
Print Assumptions C04_use_names_documented.

Theorem C04_import_names_documented : forall k b n,
  map (expand b n) (cands k) = map (spec_name b n) (code_order k)
  /\ linear_extension (is_import k) (code_order k) = true.
Proof. intros; split; [apply code_order_names | apply code_order_ext]. Qed.
Print Assumptions C04_import_names_documented.

(* do_find_file, relative, lock/unlock, FsLoader::find_file and the plain-css arm still read as modelled *)
Theorem C04_code_shapes : shapes_ok = true.
Proof. exact shapes_ok_true. Qed.
Print Assumptions C04_code_shapes.

(* the file found is the first name, in list order, that the loader has *)
Theorem C04_first_candidate : forall lookup s k url p id rd s',
  try_names (orc_of lookup) s (probe_names url (cands k)) = FFound p id rd s' ->
  exists pre post, probe_names url (cands k) = pre ++ p :: post /\ lookup p = Some id /\ rd = true
                   /\ forall q, In q pre -> lookup q = None.
Proof. intros; eapply try_names_found; eauto. Qed.
Print Assumptions C04_first_candidate.

(* nothing is found iff the loader has none of the names *)
Theorem C04_none_iff : forall lookup s k url,
  (exists s', try_names (orc_of lookup) s (probe_names url (cands k)) = FNone s')
  <-> forall q, In q (probe_names url (cands k)) -> lookup q = None.
Proof. intros; apply try_names_none. Qed.
Print Assumptions C04_none_iff.

(* a url that already carries one of the code's direct suffixes is looked up as it is *)
Theorem C04_direct : forall url cs, is_direct url = true -> probe_names url cs = [url].
Proof. exact probe_names_direct. Qed.
Print Assumptions C04_direct.

(* FsLoader: the load paths are searched in order *)
Theorem C04_load_paths_in_order : forall isfile bases url f,
  fs_find isfile bases url = Some f ->
  exists pre b post, bases = pre ++ b :: post /\ isfile (join b url) = Some f
                     /\ forall b', In b' pre -> isfile (join b' url) = None.
Proof. exact load_paths_in_order. Qed.
Print Assumptions C04_load_paths_in_order.

(* Context::find_file (after the fixes 3dfdada and d80c9be): the url is normalized; the names of the
   normalized relative url are scanned first; when none exists and it differs from the url, the names of
   the url itself are scanned *)
Theorem C04_fallback_unchanged : forall orc cur k u s,
  try_names orc s (find_names cur k u) =
  let url := normalize u in
  let rel := normalize (relative cur url) in
  match try_names orc s (probe_names rel (cands k)) with
  | FNone s' => if String.eqb rel url then FNone s' else try_names orc s' (probe_names url (cands k))
  | r => r
  end.
Proof. exact find_file_two_phase. Qed.
Print Assumptions C04_fallback_unchanged.

(* a load depends on the url only through its normal form (`a`, `./a`, `d/../a`, `a//` are one url);
   the theorems below are stated for urls written in normal form *)
Theorem C04_spelling_irrelevant : forall cur k u v,
  normalize u = normalize v -> find_names cur k u = find_names cur k v.
Proof. intros cur k u v H. unfold find_names. rewrite H. reflexivity. Qed.
Print Assumptions C04_spelling_irrelevant.

(* importer at the root (its url has no directory part): the resolved file is one the text allows,
   over every file system and every list of load paths *)
Theorem C04_root_allowed : forall isfile bases cur k url p f rd s',
  fst (split_dir cur) = "" -> normalize url = url -> is_direct url = false ->
  resolve isfile bases cur k url = FFound p f rd s' ->
  In f (allowed isfile (is_import k) (map dir_prefix bases) (fst (split_dir url)) (snd (split_dir url))).
Proof. exact root_allowed. Qed.
Print Assumptions C04_root_allowed.

Theorem C04_root_none_iff : forall isfile bases cur k url,
  fst (split_dir cur) = "" -> normalize url = url -> is_direct url = false ->
  ((exists s', resolve isfile bases cur k url = FNone s') <->
   existing_gen isfile (map dir_prefix bases)
     (cand_names (is_import k) (fst (split_dir url)) (snd (split_dir url))) = []).
Proof. exact root_none_iff. Qed.
Print Assumptions C04_root_none_iff.

(* importer in a sub-directory d (found under load path b0), every file system, every further load
   paths: outside class K2 (a candidate exists as <other load path>/<d>/..) the resolved file is one
   the text allows with the places: the importing file's directory, then every load path in order.
   (Before fix 3dfdada this failed whenever the file existed only in a load path: F9.) *)
Theorem C04_subdir_allowed : forall isfile b0 others cur k url p f rd s',
  fst (split_dir cur) <> "" -> normalize url = url -> normalize (relative cur url) = relative cur url ->
  is_direct url = false -> is_direct (relative cur url) = false ->
  (forall bo c, In bo others -> In c (spec_cands (is_import k)) ->
      isfile (join bo (fst (split_dir cur) ++ spec_name (fst (split_dir url)) (snd (split_dir url)) c)%string) = None) ->
  resolve isfile (b0 :: others) cur k url = FFound p f rd s' ->
  In f (allowed isfile (is_import k) ((dir_prefix b0 ++ fst (split_dir cur))%string :: map dir_prefix (b0 :: others))
          (fst (split_dir url)) (snd (split_dir url))).
Proof. exact subdir_allowed. Qed.
Print Assumptions C04_subdir_allowed.

(* a load that finds nothing fails, except @import of the four documented forms *)
Theorem C04_css_fallback : forall orc content f unq cur k u s s',
  find_file orc cur k u s = LNone s' ->
  load orc content (S f) unq cur k u s =
    if is_import k && spec_plain_import u unq then ROk (push_import u s') else RErr ENotFound s'.
Proof. exact load_not_found. Qed.
Print Assumptions C04_css_fallback.

(* F9b (class K2): the statement for importers anywhere (places = importing file's directory, then
   the load paths) is still false: <load path>/sub/c.scss is taken as relative to R/sub/a.scss *)
Theorem C04_refuted_subdir_loadpath :
  exists files bases curid cur k url,
    fs_lookup files bases cur = Some curid /\ is_direct url = false /\
    resolved_file files bases cur k url = Some "L1/sub/c.scss" /\
    allowed (fs_isfile files) (is_import k) (fst (split_dir curid) :: map dir_prefix bases)
      (fst (split_dir url)) (snd (split_dir url)) = [].
Proof. exact refuted_loadpath. Qed.
Print Assumptions C04_refuted_subdir_loadpath.

Theorem C04_statement_refuted : ~ C04_statement.
Proof. exact statement_refuted. Qed.
Print Assumptions C04_statement_refuted.

(* the hypotheses of C04_root_allowed are satisfiable, with a choice between several existing files *)
Example C04_root_example :
  exists p s', resolve (fs_isfile ["R/t.scss"; "R/_u.scss"; "L1/u.css"; "L1/_u.scss"]) ["R"; "L1"]
                 "t.scss" KUse "u" = FFound p "R/_u.scss" true s'.
Proof. eexists _, _. vm_compute. reflexivity. Qed.

(* the former F9 witness: the url unchanged in a load path is found from sub/a.scss *)
Example C04_unchanged_url_found :
  resolved_file ["R/t.scss"; "R/sub/a.scss"; "L1/b.scss"] ["R"; "L1"] "sub/a.scss" KUse "b" = Some "L1/b.scss".
Proof. exact unchanged_now_found. Qed.
