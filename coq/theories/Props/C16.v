(* C16 - Variable assignment follows Sass scoping.
   Property theorems only; proofs live in Proofs/C16.v. *)
From Coq Require Import List ZArith Bool.
From RV Require Import Spec.SassFlow Model.EvScope Spec.SassScope Run.C16 Proofs.C16 Proofs.C16b.
Import ListNotations.
Local Open Scope Z_scope.

(* the full statement: the model of rsass agrees with the reference interpreter on every program *)
Definition C16_statement : Prop :=
  forall p, out_eqb (by_id (run_prog p)) (by_id (fst (spec_run p))) = true.

(* it is false of the faithful model, in each of the three known classes (witnesses reproduced on rsass) *)
Theorem C16_refuted_inner_update : exists p, known_class p = 1 /\ disagrees p = true.
Proof. exists prog_K1. exact refuted_K1. Qed.
Print Assumptions C16_refuted_inner_update.
Theorem C16_refuted_soft_decl : exists p, known_class p = 2 /\ disagrees p = true.
Proof. exists prog_K2. exact refuted_K2. Qed.
Print Assumptions C16_refuted_soft_decl.
Theorem C16_refuted_each_alias : exists p, known_class p = 3 /\ disagrees p = true.
Proof. exists prog_K3. exact refuted_K3. Qed.
Print Assumptions C16_refuted_each_alias.

(* main theorem (partial: programs built from every Scope-creating item kind - rules, @media, @for,
   @while, mixins with parameters - and all flag combinations, but without @if/@each): outside the
   known classes the model of rsass computes exactly what the reference interpreter computes *)
Theorem C16_main_partial : forall p,
  hard_only_list p = true -> known_class p = 0 -> run_prog p = fst (spec_run p).
Proof. exact main_partial. Qed.
Print Assumptions C16_main_partial.

(* the same for every program without @each: @if/@else is included (in the reference an @if branch has its own
   scope; without a known-class event it stays empty, so rsass's scopes are the reference scopes minus those).
   Still partial: programs with @each (their loop scope is merged into the enclosing one by rsass, which needs an
   overlay relation between frames and a proof that the shadowed entry below the loop scope is untouched) *)
Theorem C16_main_partial_if : forall p,
  no_each_list p = true -> known_class p = 0 -> run_prog p = fst (spec_run p).
Proof. exact main_partial_if. Qed.
Print Assumptions C16_main_partial_if.

(* --- the other clauses, for ALL states / programs (so also inside the known classes) --- *)

(* `!global` always writes the global scope, and only it *)
Theorem C16_global_flag : forall st x v d,
  locals (set_variable st x v d true) = locals st /\
  (d = false -> f_get (global (set_variable st x v d true)) x = Some v) /\
  (forall y, y <> x -> f_get (global (set_variable st x v d true)) y = f_get (global st) y).
Proof. exact global_flag. Qed.
Print Assumptions C16_global_flag.

(* `!default` assigns iff the variable is undefined or null *)
Theorem C16_default_flag : forall st x v g,
  set_variable st x v true g =
  match lookup st x with
  | Some (SV _) => st
  | _ => set_variable st x v false g
  end.
Proof. exact default_flag. Qed.
Print Assumptions C16_default_flag.

(* an unflagged assignment ALWAYS writes the current scope: the cause of F23 *)
Theorem C16_unflagged_writes_current : forall st x v,
  set_variable st x v false false = set_current st x v /\
  tl (locals (set_variable st x v false false)) = tl (locals st) /\
  (locals st <> [] -> global (set_variable st x v false false) = global st).
Proof. exact unflagged_writes_current. Qed.
Print Assumptions C16_unflagged_writes_current.

(* no statement ever changes a local scope other than the current one ... *)
Theorem C16_block_keeps_outer : forall s st out,
  length (locals (fst (exec s (st, out)))) = length (locals st) /\
  tl (locals (fst (exec s (st, out)))) = tl (locals st).
Proof. intros s st out. destruct (all_keep_tail s st out) as [H1 H2]. split; congruence. Qed.
Print Assumptions C16_block_keeps_outer.

(* ... so @for variables are local: after the loop every local scope is exactly as before *)
Theorem C16_for_var_local : forall x a b incl body st out,
  locals (fst (exec (SFor x a b incl body) (st, out))) = locals st.
Proof. intros. apply (hard_preserves_locals (SFor x a b incl body) I). Qed.
Print Assumptions C16_for_var_local.

(* mixin parameters (and everything the body declares) are local to the mixin body *)
Theorem C16_params_local : forall ps body st out,
  locals (fst (exec (SMixin ps body) (st, out))) = locals st.
Proof. intros. apply (hard_preserves_locals (SMixin ps body) I). Qed.
Print Assumptions C16_params_local.

(* @each: the loop variable's entry in the current scope is restored, whatever the body does *)
Theorem C16_each_var_restored : forall x items body st out,
  cur_get (fst (exec (SEach x items body) (st, out))) x = cur_get st x.
Proof. exact each_var_restored. Qed.
Print Assumptions C16_each_var_restored.

(* non-vacuity: a program with every hard construct and all flags, outside the classes *)
Example C16_nonvacuous :
  let p := [SSet 0%nat (EInt 1) false false;
            SBlock KRule [SSet 1%nat (EInt 2) false false; SSet 1%nat (EVarPlus 1%nat 10) false false;
                          SSet 0%nat (EInt 5) false true; SSet 2%nat (EInt 9) true false; SRead 0%nat 1%nat];
            SFor 2%nat 1 2 true [SRead 1%nat 2%nat];
            SMixin [(1%nat, EVarPlus 0%nat 1)] [SWhile 2 [SRead 2%nat 1%nat]];
            SRead 3%nat 0%nat; SRead 4%nat 1%nat; SRead 5%nat 2%nat] in
  hard_only_list p = true /\ known_class p = 0 /\
  run_prog p = [(0%nat, Some (SV 12)); (1%nat, Some (SV 1)); (1%nat, Some (SV 2)); (2%nat, Some (SV 6));
                (2%nat, Some (SV 6)); (3%nat, Some (SV 5)); (4%nat, None); (5%nat, None)].
Proof. vm_compute. repeat split. Qed.
