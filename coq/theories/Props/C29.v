(* C29 - Math functions compute the specified values.  Property theorems only.
   The m_* functions (Model/MathFns.v) are the ones compared with sass:math on every run. *)
From Coq Require Import String List ZArith Bool.
From RV Require Import Base.F64 Gen.Units Model.Units Model.Numeric Model.MathFns Proofs.C29.
Import ListNotations.
Local Open Scope Z_scope.

(* abs/ceil/floor/round: every double, every unit set: IEEE operation on the value, units kept *)
Theorem C29_rounding_fns : forall v u,
  m_abs (mkNum v u) = MNum (mkNum (fabs v) u) /\ m_ceil (mkNum v u) = MNum (mkNum (fceil v) u) /\
  m_floor (mkNum v u) = MNum (mkNum (ffloor v) u) /\ m_round (mkNum v u) = MNum (mkNum (fround v) u).
Proof. exact rounding_fns. Qed.
Print Assumptions C29_rounding_fns.

Theorem C29_percentage : forall a,
  (num_is_no_unit a = true -> m_percentage a = MNum (mkNum (fmul (nval a) f_hundred) us_percent)) /\
  (num_is_no_unit a = false -> m_percentage a = MErr).
Proof. exact percentage_spec. Qed.
Print Assumptions C29_percentage.

(* math.div is Numeric division (value quotient, unit sets divided and simplified: see C11) *)
Theorem C29_div : forall a b, m_div a b = match numeric_div a b with Some n => MNum n | None => MOut end.
Proof. exact div_spec. Qed.
Print Assumptions C29_div.

Theorem C29_sqrt : forall a,
  (num_is_no_unit a = true -> m_sqrt a = MNum (mkNum (fsqrt (nval a)) [])) /\
  (num_is_no_unit a = false -> m_sqrt a = MErr).
Proof. exact sqrt_spec. Qed.
Print Assumptions C29_sqrt.

(* max / min: every argument list: the result is one of the arguments (no conversion applied to it);
   no argument at all is an error *)
Theorem C29_minmax_arg :
  (forall args n, m_max args = MNum n -> In n args) /\ (forall args n, m_min args = MNum n -> In n args) /\
  m_max [] = MErr /\ m_min [] = MErr.
Proof. repeat split; [apply extreme_arg|apply extreme_arg]. Qed.
Print Assumptions C29_minmax_arg.

Theorem C29_minmax_two : forall a b,
  m_max [a; b] = match cmp2 a b with
                 | Some (Some Gt) => MNum a | Some (Some _) => MNum b | Some None => MKept | None => MOut end /\
  m_min [a; b] = match cmp2 a b with
                 | Some (Some Lt) => MNum a | Some (Some _) => MNum b | Some None => MKept | None => MOut end.
Proof. intros; split; [apply max_two|apply min_two]. Qed.
Print Assumptions C29_minmax_two.

Theorem C29_clamp : forall mn x mx,
  (forall n, m_clamp mn x mx = MNum n -> n = mn \/ n = x \/ n = mx) /\
  (m_clamp mn x mx = MErr <-> (compat_with mn x = false \/ compat_with mn mx = false)).
Proof. intros; split; [intros n; apply clamp_arg|apply clamp_err]. Qed.
Print Assumptions C29_clamp.

Theorem C29_unit_guards : forall a,
  (num_is_no_unit a = false -> m_percentage a = MErr /\ m_sqrt a = MErr) /\
  (angle_or_unitless a = true <->
   (num_is_no_unit a = true \/ exists u f, nunit a = [(u, 1)] /\ unit_scale_to u (UK "Rad") = Some f)).
Proof. exact guards. Qed.
Print Assumptions C29_unit_guards.

(* PARTIAL: the libm-backed functions (exp log pow sin cos tan asin acos atan atan2) are not modelled;
   only their guards are (unitless_arg / angle_or_unitless, checked against rsass on every run) and
   their values are compared with an independent libm outside Coq.  What is proved here: the guard
   used for exp/log/pow rejects exactly the numbers that have a unit. *)
Theorem C29_transcendental_partial : forall a, unitless_arg a = num_is_no_unit a.
Proof. reflexivity. Qed.
Print Assumptions C29_transcendental_partial.

Example C29_nonvacuous :
  let px := mkNum (of_bits 4607182418800017408) (us_of_unit (UK "Px")) in
  let two := mkNum (of_bits 4611686018427387904) [] in
  m_max [px; two] = MNum two /\ m_clamp px px px = MNum px /\ num_is_no_unit px = false
  /\ angle_or_unitless (mkNum (of_bits 4607182418800017408) (us_of_unit (UK "Deg"))) = true.
Proof. vm_compute. auto. Qed.
