(* C12 - Equality is symmetric and consistent with ordering.
   Property theorems only; proofs live in Proofs/C12.v.  `veq`, `vneq`, `vlt`, `vgt`
   (Model/ValueEq.v) are the functions compared with rsass's answers on every run.
   State after the fixes 5445670 (symmetric Number::eq), 0a747ec (map equality ignores key order) and
   14ede20 (two convertible units compare symmetrically). *)
From Coq Require Import String List ZArith Bool NArith.
From RV Require Import Base.F64 Model.Units Model.Numeric Model.CssStr Model.ValueEq Proofs.C12.
Import ListNotations.
Local Open Scope Z_scope.

(* `a != b` is the negation of `a == b`: all values *)
Theorem C12_neq : forall a b, vneq a b = negb (veq a b).
Proof. exact neq_is_negation. Qed.
Print Assumptions C12_neq.

(* every modelled value containing no NaN equals itself; for maps the keys must be pairwise unequal, which
   is what OrderMap::insert maintains (structural induction; first-match lookup finds the entry itself) *)
Theorem C12_refl : forall v, has_other v = false -> nan_free v = true -> maps_nodup v = true -> veq v v = true.
Proof. exact veq_refl. Qed.
Print Assumptions C12_refl.

Theorem C12_refl_number : forall n, f_is_nan (nval n) = false -> num_eqb n n = true.
Proof. exact num_eqb_refl. Qed.
Print Assumptions C12_refl_number.

(* strings: CssString equality is symmetric for ALL stored values and quotes (escapes kept in the stored value
   included: with different quotes both sides are unquoted, with equal quotes the stored values are compared) *)
Theorem C12_string_eq_sym : forall s t, str_eqb s t = str_eqb t s.
Proof. exact str_eqb_sym. Qed.
Print Assumptions C12_string_eq_sym.

(* F17 is fixed: Number::eq is symmetric for ALL pairs of doubles - NaN, infinities, signed zeros,
   subnormals, overflowing differences included *)
Theorem C12_number_eq_sym : forall a b : f64, number_eq a b = number_eq b a.
Proof. exact number_eq_sym. Qed.
Print Assumptions C12_number_eq_sym.

(* Numeric equality (value + unit set): symmetric when the unit sets are equal or one side is unitless *)
Theorem C12_numeric_eq_sym : forall a b, aligned a b = true -> num_eqb a b = num_eqb b a.
Proof. exact num_eqb_sym_aligned. Qed.
Print Assumptions C12_numeric_eq_sym.

(* F31 is fixed (14ede20): Numeric equality of two numbers carrying single known units is symmetric for ALL
   magnitudes, whether the units convert into each other or not.  Proof: a sweep over the unit table shows that
   for every pair of known units either no conversion exists in either direction, or exactly one direction has a
   factor >= 1 (so both orders multiply the same operand by the same factor), or both factors are exactly 1.0
   (vmin/vmax; x * 1.0 = x is proved over Flocq); then C12_number_eq_sym. *)
Theorem C12_numeric_eq_sym_units : forall u v x y, In u real_units -> In v real_units ->
  num_eqb (mkNum x (us_of_unit u)) (mkNum y (us_of_unit v)) = num_eqb (mkNum y (us_of_unit v)) (mkNum x (us_of_unit u)).
Proof. exact num_eqb_sym_units. Qed.
Print Assumptions C12_numeric_eq_sym_units.

(* `a == b` = `b == a` for all values (numbers, strings in any spelling, booleans, null, nested lists, maps with at
   most one entry) whose numbers are unitless or carry equal unit sets or single known units.  What remains outside:
   - numbers with UNKNOWN units (`1foo`) compared with a different unit, and compound unit sets (`px*px`, `px/s`)
     that differ: not covered by the table sweep (no counterexample; checked on rsass's answers);
   - maps with two or more entries: the lookup takes the FIRST entry with an equal key and equality of numbers
     is not transitive, so symmetry needs an argument about key sets that is not done (checked on rsass's answers). *)
Theorem C12_sym : forall a b, maps_le1 a = true -> maps_le1 b = true -> all_sym_units a b -> veq a b = veq b a.
Proof. exact veq_sym. Qed.
Print Assumptions C12_sym.

(* the same with the symmetry of the number pairs as the only hypothesis (whatever the units) *)
Theorem C12_sym_general : forall a b, maps_le1 a = true -> maps_le1 b = true -> pairs_sym a b -> veq a b = veq b a.
Proof. exact veq_sym_general. Qed.
Print Assumptions C12_sym_general.

(* for two numbers that the code can compare (partial_cmp is Some) and that carry the same
   `calculated` flag, exactly one of <, ==, > holds *)
Theorem C12_trichotomy : forall x y c o, numeric_cmp x y = Some (Some o) -> count3 (VNum x c) (VNum y c) = 1.
Proof. exact trichotomy. Qed.
Print Assumptions C12_trichotomy.

(* F18: different flags: calc(1) < 1 and calc(1) == 1 *)
Theorem C12_refuted_trichotomy_calc : count3 (VNum one false) (VNum one true) = 2.
Proof. exact refuted_trichotomy_calc. Qed.
Print Assumptions C12_refuted_trichotomy_calc.

(* F19: 1px vs 1: none of the three *)
Theorem C12_refuted_trichotomy_unitless : count3 (VNum one_px true) (VNum one true) = 0.
Proof. exact refuted_trichotomy_unitless. Qed.
Print Assumptions C12_refuted_trichotomy_unitless.

(* hypotheses are satisfiable; the former F17 witness is now equal in both directions *)
Example C12_nonvacuous :
  let a := VList [VNum one true; VStr (mkStr [97%N] QNone); VMap [(VStr (mkStr [98%N] QNone), VNum below_one true)]] 1 false in
  let b := VList [VNum below_one true; VStr (mkStr [97%N] QDouble); VMap [(VStr (mkStr [98%N] QDouble), VNum one true)]] 1 false in
  maps_le1 a = true /\ maps_le1 b = true /\ veq a b = true /\ veq b a = true
  /\ numeric_cmp one below_one = Some (Some Eq) /\ numeric_cmp below_one one = Some (Some Eq)
  /\ maps_nodup (VMap [(VStr (mkStr [97%N] QNone), VNum one true); (VStr (mkStr [98%N] QNone), VNum one true)]) = true
  /\ In (UK "Turn") real_units /\ In (UK "Deg") real_units
  /\ veq (VNum turn_254 true) (VNum deg_9144 true) = veq (VNum deg_9144 true) (VNum turn_254 true).
Proof. vm_compute. repeat split; auto 40. Qed.
