From RV Require Import Run.C12.
