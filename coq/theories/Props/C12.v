(* C12 - Equality is symmetric and consistent with ordering.
   Property theorems only; proofs live in Proofs/C12.v.  `veq`, `vneq`, `vlt`, `vgt`
   (Model/ValueEq.v) are the functions compared with rsass's answers on every run. *)
From Coq Require Import String List ZArith Bool NArith.
From RV Require Import Base.F64 Model.Units Model.Numeric Model.ValueEq Proofs.C12.
Import ListNotations.
Local Open Scope Z_scope.

(* `a != b` is the negation of `a == b`: all values *)
Theorem C12_neq : forall a b, vneq a b = negb (veq a b).
Proof. exact neq_is_negation. Qed.
Print Assumptions C12_neq.

(* every modelled value containing no NaN equals itself (structural induction) *)
Theorem C12_refl : forall v, has_other v = false -> nan_free v = true -> veq v v = true.
Proof. exact veq_refl. Qed.
Print Assumptions C12_refl.

(* numbers: every non-NaN double, every unit set (0 and infinities through the partial_cmp fallback) *)
Theorem C12_refl_number : forall n, f_is_nan (nval n) = false -> num_eqb n n = true.
Proof. exact num_eqb_refl. Qed.
Print Assumptions C12_refl_number.

(* equality is symmetric whenever the numbers of a and the numbers of b compare symmetrically:
   Number/Numeric equality is the only source of asymmetry (strings, separators, brackets, list
   and map structure, the empty list/map rule are symmetric) *)
Theorem C12_sym : forall a b, pairs_sym a b -> veq a b = veq b a.
Proof. exact veq_sym. Qed.
Print Assumptions C12_sym.

(* PARTIAL characterisation of the symmetric number pairs: with the same unit set only Number::eq
   (|a-b|/|a| <= EPSILON) can differ between the directions; with exactly one unitless operand both
   directions are false.  A closed-form input class for Number::eq itself is not proved. *)
Theorem C12_sym_number_partial : forall a b,
  (us_eqb (nunit a) (nunit b) = true ->
   number_eq (nval a) (nval b) = number_eq (nval b) (nval a) -> num_eqb a b = num_eqb b a) /\
  (us_eqb (nunit a) (nunit b) = false -> num_is_no_unit a || num_is_no_unit b = true ->
   num_eqb a b = false /\ num_eqb b a = false).
Proof. intros a b. split; [apply numeric_eq_sym_same_unit|apply numeric_eq_unitless_vs_unit]. Qed.
Print Assumptions C12_sym_number_partial.

(* F17: the unrestricted statement is false: 1 == 0.9999999999999998 but not the reverse *)
Definition C12_sym_statement : Prop := forall a b, veq a b = veq b a.
Theorem C12_refuted_sym : ~ C12_sym_statement /\
  veq (VNum one true) (VNum below_one true) = true /\ veq (VNum below_one true) (VNum one true) = false.
Proof.
  split; [|exact refuted_sym]. intros H. specialize (H (VNum one true) (VNum below_one true)).
  destruct refuted_sym as [E1 E2]. rewrite E1, E2 in H. discriminate.
Qed.
Print Assumptions C12_refuted_sym.

(* for two numbers that the code can compare (partial_cmp is Some) and that carry the same
   `calculated` flag, exactly one of <, ==, > holds *)
Theorem C12_trichotomy : forall x y c o, numeric_cmp x y = Some (Some o) -> count3 (VNum x c) (VNum y c) = 1.
Proof. exact trichotomy. Qed.
Print Assumptions C12_trichotomy.

(* F18: different flags: calc(1) < 1 and calc(1) == 1 *)
Theorem C12_refuted_trichotomy_calc : count3 (VNum one false) (VNum one true) = 2.
Proof. exact refuted_trichotomy_calc. Qed.
Print Assumptions C12_refuted_trichotomy_calc.

(* F19: 1px vs 1: none of the three *)
Theorem C12_refuted_trichotomy_unitless : count3 (VNum one_px true) (VNum one true) = 0.
Proof. exact refuted_trichotomy_unitless. Qed.
Print Assumptions C12_refuted_trichotomy_unitless.

(* hypotheses are satisfiable *)
Example C12_nonvacuous :
  pairs_sym (VList [VNum one true; VStr [97%N] false] 1 false) (VList [VNum one true; VStr [97%N] true] 1 false)
  /\ numeric_cmp one below_one = Some (Some Eq) /\ numeric_cmp below_one one = Some (Some Lt)
  /\ nan_free (VMap [VStr [97%N] false] [VNum one true]) = true.
Proof.
  split; [|vm_compute; auto].
  intros x y Hx Hy. cbn in Hx, Hy. destruct Hx as [<-|[]]; destruct Hy as [<-|[]]. reflexivity.
Qed.
