(* C12 - Equality is symmetric and consistent with ordering.
   Property theorems only; proofs live in Proofs/C12.v.  `veq`, `vneq`, `vlt`, `vgt`
   (Model/ValueEq.v) are the functions compared with rsass's answers on every run.
   State after the fixes 5445670 (symmetric Number::eq) and 0a747ec (map equality ignores key order). *)
From Coq Require Import String List ZArith Bool NArith.
From RV Require Import Base.F64 Model.Units Model.Numeric Model.CssStr Model.ValueEq Proofs.C12.
Import ListNotations.
Local Open Scope Z_scope.

(* `a != b` is the negation of `a == b`: all values *)
Theorem C12_neq : forall a b, vneq a b = negb (veq a b).
Proof. exact neq_is_negation. Qed.
Print Assumptions C12_neq.

(* every modelled value containing no NaN equals itself; for maps the keys must be pairwise unequal, which
   is what OrderMap::insert maintains (structural induction; first-match lookup finds the entry itself) *)
Theorem C12_refl : forall v, has_other v = false -> nan_free v = true -> maps_nodup v = true -> veq v v = true.
Proof. exact veq_refl. Qed.
Print Assumptions C12_refl.

Theorem C12_refl_number : forall n, f_is_nan (nval n) = false -> num_eqb n n = true.
Proof. exact num_eqb_refl. Qed.
Print Assumptions C12_refl_number.

(* strings: CssString equality is symmetric for ALL stored values and quotes (escapes kept in the stored value
   included: with different quotes both sides are unquoted, with equal quotes the stored values are compared) *)
Theorem C12_string_eq_sym : forall s t, str_eqb s t = str_eqb t s.
Proof. exact str_eqb_sym. Qed.
Print Assumptions C12_string_eq_sym.

(* F17 is fixed: Number::eq is symmetric for ALL pairs of doubles - NaN, infinities, signed zeros,
   subnormals, overflowing differences included *)
Theorem C12_number_eq_sym : forall a b : f64, number_eq a b = number_eq b a.
Proof. exact number_eq_sym. Qed.
Print Assumptions C12_number_eq_sym.

(* Numeric equality (value + unit set): symmetric when the unit sets are equal or one side is unitless *)
Theorem C12_numeric_eq_sym : forall a b, aligned a b = true -> num_eqb a b = num_eqb b a.
Proof. exact num_eqb_sym_aligned. Qed.
Print Assumptions C12_numeric_eq_sym.

(* `a == b` = `b == a` for all values (numbers, strings, booleans, null, nested lists, maps with at most one
   entry) whose numbers have aligned units.  What remains outside:
   - two DIFFERENT convertible units (`1in == 96px`): each direction converts the other operand with its own
     rounding, no proof that the two epsilon tests agree;
   - maps with two or more entries: the lookup takes the FIRST entry with an equal key and equality of numbers
     is not transitive, so symmetry needs an argument about key sets that is not done.
   Both are checked on rsass's answers on every run (clause symmetry, no escape class). *)
Theorem C12_sym : forall a b, maps_le1 a = true -> maps_le1 b = true -> all_aligned a b -> veq a b = veq b a.
Proof. exact veq_sym. Qed.
Print Assumptions C12_sym.

(* the same with the symmetry of the number pairs as the only hypothesis (whatever the units) *)
Theorem C12_sym_general : forall a b, maps_le1 a = true -> maps_le1 b = true -> pairs_sym a b -> veq a b = veq b a.
Proof. exact veq_sym_general. Qed.
Print Assumptions C12_sym_general.

(* F31: the unrestricted statement is still false for two different convertible units *)
Definition C12_sym_statement : Prop := forall a b, veq a b = veq b a.
Theorem C12_refuted_sym_two_units : ~ C12_sym_statement /\
  veq (VNum turn_254 true) (VNum deg_9144 true) = true /\ veq (VNum deg_9144 true) (VNum turn_254 true) = false.
Proof.
  split; [|exact refuted_sym_two_units]. intros H. specialize (H (VNum turn_254 true) (VNum deg_9144 true)).
  destruct refuted_sym_two_units as [E1 E2]. rewrite E1, E2 in H. clear E1 E2. exact (Bool.diff_true_false H).
Qed.
Print Assumptions C12_refuted_sym_two_units.

(* for two numbers that the code can compare (partial_cmp is Some) and that carry the same
   `calculated` flag, exactly one of <, ==, > holds *)
Theorem C12_trichotomy : forall x y c o, numeric_cmp x y = Some (Some o) -> count3 (VNum x c) (VNum y c) = 1.
Proof. exact trichotomy. Qed.
Print Assumptions C12_trichotomy.

(* F18: different flags: calc(1) < 1 and calc(1) == 1 *)
Theorem C12_refuted_trichotomy_calc : count3 (VNum one false) (VNum one true) = 2.
Proof. exact refuted_trichotomy_calc. Qed.
Print Assumptions C12_refuted_trichotomy_calc.

(* F19: 1px vs 1: none of the three *)
Theorem C12_refuted_trichotomy_unitless : count3 (VNum one_px true) (VNum one true) = 0.
Proof. exact refuted_trichotomy_unitless. Qed.
Print Assumptions C12_refuted_trichotomy_unitless.

(* hypotheses are satisfiable; the former F17 witness is now equal in both directions *)
Example C12_nonvacuous :
  let a := VList [VNum one true; VStr (mkStr [97%N] QNone); VMap [(VStr (mkStr [98%N] QNone), VNum below_one true)]] 1 false in
  let b := VList [VNum below_one true; VStr (mkStr [97%N] QDouble); VMap [(VStr (mkStr [98%N] QDouble), VNum one true)]] 1 false in
  maps_le1 a = true /\ maps_le1 b = true /\ veq a b = true /\ veq b a = true
  /\ numeric_cmp one below_one = Some (Some Eq) /\ numeric_cmp below_one one = Some (Some Eq)
  /\ maps_nodup (VMap [(VStr (mkStr [97%N] QNone), VNum one true); (VStr (mkStr [98%N] QNone), VNum one true)]) = true.
Proof. vm_compute. repeat split; reflexivity. Qed.
