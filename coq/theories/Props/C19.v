(* C19 - Nested selectors combine as Sass specifies.
   Property theorems only; proofs live in Proofs/C19.v.  nest1 = Selector::nest, nest_set =
   CssSelectorSet::nest, round_robin = its merge loop, rr_sel = Selector::resolve_ref, comp_append =
   CompoundSelector::append, unify_ctx = the unify call of resolve_ref (Model/SelNest.v). *)
From Coq Require Import List NArith Bool.
From RV Require Import Base.Text Model.Sel Model.SelFmt Model.SelAlg Model.SelNest Spec.SelVisible Spec.SelNesting
  Run.C22 Run.C19 Proofs.C19.
Import ListNotations.
Import String.StringSyntax.
Local Open Scope string_scope.
Local Open Scope list_scope.

(* the merge loop over one part per inner selector, each listing the outers, is the outer-major product *)
Theorem C19_round_robin_is_outer_major : forall (A B C : Type) (g : A -> B -> C) outers inners,
  round_robin (map (fun i => map (fun o => g o i) outers) inners) = flat_map (fun o => map (g o) inners) outers.
Proof. intros. exact (round_robin_product g outers inners). Qed.
Print Assumptions C19_round_robin_is_outer_major.

(* no `&`: every outer with every inner, outer-major, for ALL selector lists *)
Theorem C19_no_ref_product : forall outers inners ctx,
  forallb (fun i => negb (hb_sel i)) inners = true ->
  nest_set outers inners ctx = Ok (flat_map (fun o => map (nest1 o) inners) outers).
Proof. exact no_ref_product. Qed.
Print Assumptions C19_no_ref_product.

(* each combination is the descendant combination ... *)
Theorem C19_no_ref_descendant : forall o i,
  is_local_empty o = false -> plain_sel i = true -> nest1 o i = attach_root i (Ancestor, o).
Proof. exact nest1_descendant. Qed.
Print Assumptions C19_no_ref_descendant.

(* ... written `outer inner` *)
Theorem C19_no_ref_text : forall o i,
  is_local_empty o = false -> plain_sel i = true ->
  fmt_sel false (nest1 o i) = fmt_sel false o ++ str " " ++ fmt_sel false i.
Proof. exact no_ref_text. Qed.
Print Assumptions C19_no_ref_text.

Theorem C19_root_identity : forall inners,
  forallb (fun i => negb (hb_sel i)) inners = true -> nest_rule [sel0] inners = Ok inners.
Proof. exact root_identity. Qed.
Print Assumptions C19_root_identity.

(* PARTIAL (`&`): one outer selector, `&` compound last in its complex selector, no selector pseudos in it:
   the `&` compound becomes the outer compound followed by its own simple selectors (comp_append), under the
   outer selector's ancestors (unify_ctx) ... *)
Theorem C19_ref_compound_partial : forall o b ps,
  b_backref b = true -> forallb simple_pseudo ps = true ->
  rr_sel [o] (Sel None (Comp b ps)) =
  res_bind (comp_append (s_comp o) (Comp (mkBase false (b_elem b) (b_phs b) (b_classes b) (b_id b) (b_attrs b)) ps))
           (fun a => Ok (unify_ctx (s_rel o) a)).
Proof. exact ref_compound. Qed.
Print Assumptions C19_ref_compound_partial.

(* `&` under a LIST of outer selectors, mixed with inner selectors without `&`: when every `&` inner selector is a
   single compound without selector pseudos whose appended compound is left alone by the unification with the empty
   compound (clean_ref), the nested list is the outer-major product of the resolved selectors (PARTIAL: `&` not in
   the middle of a complex selector, not inside pseudo arguments) *)
Theorem C19_ref_product_partial : forall outers inners,
  (forall i, In i inners -> hb_sel i = false \/ clean_ref outers i) ->
  nest_set outers inners outers = Ok (flat_map (fun o => map (resolved o) inners) outers).
Proof. exact nest_ref_product. Qed.
Print Assumptions C19_ref_product_partial.

(* ... a type suffix (`&-x`) is glued to the last class of an outer compound ending in a class ... *)
Theorem C19_ref_suffix_name : forall e cls x suf,
  plain_name suf = true -> elem_is_any suf = false ->
  comp_append (Comp (mkBase false e [] (cls ++ [x]) None []) []) (Comp (mkBase false (Some suf) [] [] None []) [])
  = Ok (Comp (mkBase false (printed_elem (Comp (mkBase false e [] (cls ++ [x]) None []) [])) [] (cls ++ [x ++ suf]) None []) []).
Proof. exact append_suffix_class. Qed.
Print Assumptions C19_ref_suffix_name.

(* ... and simple selectors after `&` (`&.c`, `&#i`, `&[x]`, `&:hover`) follow those of the outer compound *)
Theorem C19_ref_simple_added : forall co phs cls i ats ps,
  b_backref (c_base co) = false ->
  comp_append co (Comp (mkBase false None phs cls i ats) ps)
  = Ok (Comp (mkBase false (printed_elem co) (b_phs (c_base co) ++ phs) (b_classes (c_base co) ++ cls)
                     (match i with Some j => Some j | None => b_id (c_base co) end)
                     (b_attrs (c_base co) ++ ats)) (c_ps co ++ ps)).
Proof. exact append_simple. Qed.
Print Assumptions C19_ref_simple_added.

(* `*{&b{x:y}}` (F3, fixed by dfe7d33): an error in the model as in Sass; and wherever the model refuses a suffix
   the Sass reading refuses it too *)
Theorem C19_suffix_error : model star_nest = MErr /\ spec_levels star_nest = SErr.
Proof. exact star_suffix_error. Qed.
Print Assumptions C19_suffix_error.

Theorem C19_suffix_error_sound : forall c suf, glue_suffix c suf = Fail -> exists k, spec_glue c suf = SpErr k.
Proof. exact glue_fail_is_spec_error. Qed.
Print Assumptions C19_suffix_error_sound.

(* the full statement; still false of the faithful model in the classes K2-K4 (see known_findings/C19.json) *)
Definition C19_statement : Prop :=
  forall levels, match spec_levels levels with
                 | SNA => True
                 | SErr => exists t, model levels = MOut t -> False
                 | SOk s => model levels = MOut (match s with [] => None | _ => Some (fmt_sels false s) end)
                 end.
Theorem C19_refuted_host_parent :
  model host_nest = MOut None /\ spec_levels host_nest <> SOk [] /\ spec_class host_nest = 2%N.
Proof. exact refuted_host. Qed.
Print Assumptions C19_refuted_host_parent.

Example C19_hyps_sat :
  let o := Sel None (Comp (mkBase false (Some (str "a")) [] [] None []) []) in
  let i := Sel None (Comp (mkBase false (Some (str "b")) [] [] None []) []) in
  is_local_empty o = false /\ plain_sel i = true /\ forallb (fun i => negb (hb_sel i)) [i] = true
  /\ plain_name (str "-x") = true /\ elem_is_any (str "-x") = false.
Proof. vm_compute. repeat split; reflexivity. Qed.
