(* C35 - Meaning-preserving source rewrites do not change the output.
   Property theorems only; proofs live in Proofs/C35.v.
   PARTIAL: the metamorphic relation itself is judged on the implementation's outputs on every run
   (Run/C35.v); the theorems below cover the -/_ rewrite and @debug/@warn insertion in the evaluator
   models; whitespace/comments (parser), renaming, hoisting and @import splitting have no theorem. *)
From Coq Require Import String Ascii List ZArith Bool.
From RV Require Import Model.EvValue Model.EvArgs Model.EvScope Model.EvRewrite Proofs.C35.
Import ListNotations.

(* any two spellings of a name that differ only by exchanging `-` and `_` (at any positions) are the same Name *)
Theorem C35_dash_underscore : forall a b, respell a b = true -> norm a = norm b.
Proof. exact respell_norm. Qed.
Print Assumptions C35_dash_underscore.

(* ... and argument binding sees parameter, keyword, default-reference and rest names only through that
   normalisation: respelled signatures and calls bind identically *)
Theorem C35_dash_underscore_binding : forall s1 s2 c1 c2,
  norm_sig s1 = norm_sig s2 -> norm_call c1 = norm_call c2 -> model_bind s1 c1 = model_bind s2 c2.
Proof. intros s1 s2 c1 c2 Hs Hc. rewrite <- (bind_norm s1 c1), <- (bind_norm s2 c2), Hs, Hc. reflexivity. Qed.
Print Assumptions C35_dash_underscore_binding.

(* inserting @debug / @warn between the statements of a body changes neither the scopes nor the CSS output
   (partial: one nesting level; bodies of nested blocks are plain statements) *)
Theorem C35_debug_warn_partial : forall l st out tr,
  fst (exec_items l (st, out, tr)) = exec_list (strip l) (st, out).
Proof. exact debug_warn. Qed.
Print Assumptions C35_debug_warn_partial.

Example C35_nonvacuous :
  respell "a-b_c" "a_b-c" = true /\ norm "a-b_c" = "a_b_c"%string
  /\ strip [IDebug (EInt 1); IStmt (SRead 0 0); IWarn ENull] = [SRead 0 0].
Proof. vm_compute. repeat split. Qed.
