(* C26 - String functions follow the Unicode code-point model.  Theorems only.
   Strings are arbitrary lists of code points, indices arbitrary integers. *)
From Coq Require Import String List NArith ZArith Bool.
From RV Require Import Base.Text Base.ListX Model.CssStr Model.StrFns Spec.SassStrings Proofs.C26.
Import ListNotations.
Local Open Scope list_scope.
Local Open Scope Z_scope.

Theorem C26_length : forall s, str_length s = sp_length s /\ str_length s = Z.of_nat (length s).
Proof. intros. split; reflexivity. Qed.
Print Assumptions C26_length.

(* index = the reference index, which is the first (1-based) occurrence, or null when there is none *)
Theorem C26_index : forall s sub,
  str_index s sub = sp_index s sub /\
  (forall k, find (occurs_at s sub) (seq 0 (S (length s))) = Some k ->
     occurs_at s sub k = true /\ (k <= length s)%nat /\ forall d, (d < k)%nat -> occurs_at s sub d = false) /\
  (find (occurs_at s sub) (seq 0 (S (length s))) = None ->
     forall d, (d <= length s)%nat -> occurs_at s sub d = false).
Proof. intros. split; [apply index_refines|]. split; [intros; now apply sp_index_first|apply sp_index_none]. Qed.
Print Assumptions C26_index.

(* insert: clamped, negative indices from the end; every string, every index *)
Theorem C26_insert : forall s x i, str_insert s x i = sp_insert s x i.
Proof. exact insert_refines. Qed.
Print Assumptions C26_insert.

(* slice, at full strength: for every string and every pair of integers the result is the
   characters from position start through position end, empty when that range is empty *)
Theorem C26_slice : forall s i j, str_slice s i j = sp_slice s i j.
Proof. exact slice_refines. Qed.
Print Assumptions C26_slice.

Theorem C26_slice_empty_range : forall s i j,
  slice_end j (Z.of_nat (length s)) <= slice_start i (Z.of_nat (length s)) -> str_slice s i j = [].
Proof. exact slice_empty_range. Qed.
Print Assumptions C26_slice_empty_range.

(* case functions: the reference maps, and only ASCII letters change *)
Theorem C26_case : forall s,
  str_upper s = sp_upper s /\ str_lower s = sp_lower s /\
  length (str_upper s) = length s /\ length (str_lower s) = length s /\
  (forall c, (to_ascii_upper c <> c -> (97 <= c <= 122)%N /\ to_ascii_upper c = (c - 32)%N) /\
             (to_ascii_lower c <> c -> (65 <= c <= 90)%N /\ to_ascii_lower c = (c + 32)%N)).
Proof.
  intros. destruct (case_refines s) as [A B]. split; [exact A|]. split; [exact B|].
  split; [apply map_length|]. split; [apply map_length|]. exact case_ascii_only.
Qed.
Print Assumptions C26_case.

(* the result value keeps the argument's quotedness and the computed content *)
Theorem C26_quotes : forall v q,
  (s_q (str_result v q) = QNone <-> q = QNone) /\ s_val (str_result v q) = v.
Proof. exact quotes_kept. Qed.
Print Assumptions C26_quotes.

Example C26_slice_example : str_slice [97; 98; 99]%N (-2) 5 = [98; 99]%N /\ str_slice [97; 98; 99]%N 3 1 = [].
Proof. split; reflexivity. Qed.
