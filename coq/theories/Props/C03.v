(* C03 - Each module is executed once per compilation.
   Property theorems only; proofs live in Proofs/C03.v.  State of /repo after fix d80c9be (urls are
   normalized before files are locked or looked up): the execution-count clauses hold at full strength.
   `lookup` (the loader) and `content` (the files) are arbitrary; `uf_only` says the files only use
   @use and @forward (the graphs the property quantifies over).
   PARTIAL: the clause "every user sees the same module variables" is not modelled (finding F8). *)
From Coq Require Import String List Bool Arith NArith.
From RV Require Import Gen.Candidates Model.Load Model.LoadRun Proofs.C03.
Import ListNotations.
Local Open Scope string_scope.
Local Open Scope list_scope.

(* no cache key has its body executed twice, whatever the graph and the spellings; and every executed
   key denotes the file recorded with it *)
Theorem C03_once_per_key : forall lookup content,
  (forall id d, In d (content id) -> module_directive d) ->
  forall fuel root rootid s, lookup root = Some rootid ->
  run (orc_of lookup) content fuel root rootid = ROk s ->
  NoDup (exec_keys (trace s)) /\ (forall k p id, In (EvBody k p id) (trace s) -> lookup p = Some id).
Proof. exact once_per_key. Qed.
Print Assumptions C03_once_per_key.

(* no FILE is executed twice.  The only hypothesis left is about the loader, not about the urls: it does
   not hand out one file under two different normalized names (no aliasing through overlapping load
   paths or links).  The former hypothesis "the executed keys are canonical" is gone: since d80c9be
   every key is a normalized name. *)
Theorem C03_once_per_file : forall lookup content,
  (forall id d, In d (content id) -> module_directive d) ->
  forall fuel root rootid s,
  (forall p q id, lookup p = Some id -> lookup q = Some id -> p = q) ->
  lookup root = Some rootid ->
  run (orc_of lookup) content fuel root rootid = ROk s -> NoDup (exec_ids (trace s)).
Proof. exact once_per_file_injective. Qed.
Print Assumptions C03_once_per_file.

(* instance without any hypothesis on the loader: every in-memory @use/@forward world, every graph,
   every spelling of the urls *)
Theorem C03_once_every_world : forall (w : world) fuel root s,
  (forall nb d, In nb w -> In d (snd nb) -> module_directive d) ->
  mem root (names w) = true ->
  run (orc_of (mem_lookup w)) (assoc_body w) fuel root root = ROk s -> NoDup (exec_ids (trace s)).
Proof. exact once_every_world. Qed.
Print Assumptions C03_once_every_world.

(* a @use / @forward that hits the module cache executes nothing and emits nothing *)
Theorem C03_cache_hit_not_executed : forall lookup content f unq cur k u s p id s1,
  (k = KUse \/ k = KForward) ->
  find_file (orc_of lookup) cur k u s = LFile p id s1 -> mem p (cache s1) = true ->
  exists s', load (orc_of lookup) content (S f) unq cur k u s = ROk s'
             /\ exec_keys (trace s') = exec_keys (trace s) /\ out s' = out s1 /\ calls s' = calls s1.
Proof. exact cache_hit_not_executed. Qed.
Print Assumptions C03_cache_hit_not_executed.

(* the former F7 witness: `m/lib`, `./m/lib` and `m/../m//lib` execute m/lib.scss once *)
Example C03_former_F7 :
  exists s, run_world w_spell MNorm "t.scss" "t.scss" = ROk s
            /\ exec_ids (trace s) = ["m/lib.scss"; "t.scss"] /\ out s = [1%N].
Proof. exact spelling_once. Qed.

Example C03_example :
  let w := [("t.scss", [DLoad KUse "a"; DLoad KForward "b"]); ("a.scss", [DLoad KUse "b"; DEmit 1%N]); ("b.scss", [DEmit 2%N])] in
  exists s, run_world w (MMem NoFault) "t.scss" "t.scss" = ROk s /\ out s = [1%N; 2%N]
            /\ exec_ids (trace s) = ["b.scss"; "a.scss"; "t.scss"].
Proof. eexists. vm_compute. repeat split. Qed.
