(* C03 - Each module is executed once per compilation.
   Property theorems only; proofs live in Proofs/C03.v.
   `lookup` (the loader) and `content` (the files) are arbitrary; `uf_only` says the files only use
   @use and @forward (the graphs the property quantifies over).
   PARTIAL: the clause "every user sees the same module variables" is not modelled. *)
From Coq Require Import String List Bool Arith NArith.
From RV Require Import Gen.Candidates Model.Load Model.LoadRun Proofs.C03.
Import ListNotations.
Local Open Scope string_scope.
Local Open Scope list_scope.

(* no cache key (textual path) has its body executed twice, whatever the graph and the spellings;
   and every executed key denotes the file recorded with it *)
Theorem C03_once_per_key : forall lookup content,
  (forall id d, In d (content id) -> module_directive d) ->
  forall fuel root rootid s, lookup root = Some rootid ->
  run (orc_of lookup) content fuel root rootid = ROk s ->
  NoDup (exec_keys (trace s)) /\ (forall k p id, In (EvBody k p id) (trace s) -> lookup p = Some id).
Proof. exact once_per_key. Qed.
Print Assumptions C03_once_per_key.

(* hence no FILE is executed twice, provided the executed keys are canonical: two executed keys that
   denote the same file are the same text (true of every input once urls are canonicalised, F5's fix) *)
Theorem C03_once_per_file_when_keys_canonical : forall lookup content,
  (forall id d, In d (content id) -> module_directive d) ->
  forall fuel root rootid s, lookup root = Some rootid ->
  run (orc_of lookup) content fuel root rootid = ROk s ->
  (forall p q, In p (exec_keys (trace s)) -> In q (exec_keys (trace s)) -> lookup p = lookup q -> p = q) ->
  NoDup (exec_ids (trace s)).
Proof. exact once_per_file. Qed.
Print Assumptions C03_once_per_file_when_keys_canonical.

(* a @use / @forward that hits the module cache executes nothing and emits nothing *)
Theorem C03_cache_hit_not_executed : forall lookup content f unq cur k u s p id s1,
  (k = KUse \/ k = KForward) ->
  find_file (orc_of lookup) cur k u s = LFile p id s1 -> mem p (cache s1) = true ->
  exists s', load (orc_of lookup) content (S f) unq cur k u s = ROk s'
             /\ exec_keys (trace s') = exec_keys (trace s) /\ out s' = out s1 /\ calls s' = calls s1.
Proof. exact cache_hit_not_executed. Qed.
Print Assumptions C03_cache_hit_not_executed.

(* F7: the full statement is false: `@use "m/lib"` and `@use "./m/lib"` execute m/lib.scss twice *)
Theorem C03_refuted_spelling :
  exists s, run_world w_spell MNorm "t.scss" "t.scss" = ROk s
            /\ exec_ids (trace s) = ["m/lib.scss"; "m/lib.scss"; "t.scss"]
            /\ out s = [1%N; 1%N].
Proof. exact refuted_spelling. Qed.
Print Assumptions C03_refuted_spelling.

Theorem C03_statement_refuted : ~ C03_statement.
Proof. exact statement_refuted. Qed.
Print Assumptions C03_statement_refuted.

(* the hypotheses of C03_once_per_file_when_keys_canonical are satisfiable: a diamond of modules *)
Example C03_example :
  let w := [("t.scss", [DLoad KUse "a"; DLoad KForward "b"]); ("a.scss", [DLoad KUse "b"; DEmit 1%N]); ("b.scss", [DEmit 2%N])] in
  exists s, run_world w (MMem NoFault) "t.scss" "t.scss" = ROk s /\ out s = [1%N; 2%N]
            /\ exec_ids (trace s) = ["b.scss"; "a.scss"; "t.scss"].
Proof. eexists. vm_compute. repeat split. Qed.
