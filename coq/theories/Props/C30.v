(* C30 - calc() simplifies soundly.  Property theorems only; proofs in Proofs/C30.v.

   mtree / seval / calc_model / disp : Model/Calc.v (parse structure, BinOp::eval, the calc builtin, Display)
   rank                              : position in `enum Operator` (Gen/Operators.v, regenerated on every run)
   need_paren_* / lnorm / decode     : Spec/CalcSem.v (what CSS grouping needs; value-preserving re-association; text reader) *)
From Coq Require Import String List NArith ZArith QArith Bool.
From RV Require Import Base.F64 Gen.Operators Model.Numeric Spec.CalcSem Model.Calc Run.C30 Proofs.C30.
Import ListNotations.

(* the derived order css/binop.rs relies on: Plus < Minus < Multiply < Div, all present *)
Theorem C30_operator_rank : rank_ok = true.
Proof. exact rank_ok_true. Qed.
Print Assumptions C30_operator_rank.

(* for every pair of operators the parentheses css/binop.rs puts around a RIGHT operand are the ones
   the grouping needs, except `a / (b / c)`; a LEFT operand needs them exactly under * and / over + and - *)
Theorem C30_paren_rule :
  (forall o o2, (o, o2) <> (CDiv, CDiv) -> rsass_paren_right o o2 = need_paren_right o o2)
  /\ (forall o o1, need_paren_left o o1 = true <-> (o = CMul \/ o = CDiv) /\ (o1 = CAdd \/ o1 = CSub)).
Proof. split. exact paren_rule_right. exact paren_rule_left. Qed.
Print Assumptions C30_paren_rule.

Theorem C30_refuted_paren_right : rsass_paren_right CDiv CDiv = false /\ need_paren_right CDiv CDiv = true.
Proof. exact refuted_paren_right. Qed.
Print Assumptions C30_refuted_paren_right.

(* ... and the code never parenthesises a left operand *)
Theorem C30_refuted_paren_left : forall o o1, need_paren_left o o1 = true -> rsass_paren_left o o1 = false.
Proof. exact refuted_paren_left. Qed.
Print Assumptions C30_refuted_paren_left.

(* a calculation becomes a number exactly when folding it with Sass arithmetic (Operator::eval on
   numbers: Model/Numeric.v, property C11) gives that number: all trees, all magnitudes, all units *)
Theorem C30_simplify : forall t n, fold_num t = Some n <-> calc_model t = CNumber n.
Proof. exact simplify. Qed.
Print Assumptions C30_simplify.

(* what is kept has the operands and operators that were written; only all-number subtrees are
   replaced, by their Sass value *)
Theorem C30_kept : forall t v, seval t = Some v -> residual t = Some v.
Proof. exact kept_structure. Qed.
Print Assumptions C30_kept.

(* the statement for the emitted text, as the property gives it *)
Definition C30_statement : Prop := forall t v, calc_model t = CCalc v -> reparse_ok v = true.

(* partial (bounded size): every kept tree of up to 3 operators over two var() operands is read back
   from its emitted text as the same calculation exactly when it has neither of the two patterns *)
Theorem C30_reparse_small : forall v, In v small_cvs -> reparse_ok v = negb (bad v).
Proof. exact reparse_small. Qed.
Print Assumptions C30_reparse_small.

Theorem C30_refuted_right_div :
  exists t v, calc_model t = CCalc v /\ reparse_ok v = false /\ exists_cv bad_right v = true.
Proof. exact refuted_right_div. Qed.
Print Assumptions C30_refuted_right_div.

Theorem C30_refuted_left_sum :
  exists t v, calc_model t = CCalc v /\ reparse_ok v = false /\ exists_cv bad_left v = true.
Proof. exact refuted_left_sum. Qed.
Print Assumptions C30_refuted_left_sum.

(* non-vacuity: a calculation that folds, and one that is kept without a bad pattern *)
Example C30_nonvacuous :
  (match fold_num (MBin CAdd (MNum one_bits "px") (MBin CMul (MNum two_bits "px") (MNum two_bits ""))) with
   | Some _ => true | None => false end) = true
  /\ In (VB CSub (VV 0) (VB CAdd (VV 1) (VV 0))) small_cvs
  /\ bad (VB CSub (VV 0) (VB CAdd (VV 1) (VV 0))) = false.
Proof.
  split. vm_compute. reflexivity.
  split. exact example_in. reflexivity.
Qed.
