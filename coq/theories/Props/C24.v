(* C24 - Selector unify/extend/replace/nest/append obey their algebra (PARTIAL).
   Property theorems only; proofs live in Proofs/C24.v.  extend_set / replace_set model SelectorSet::extend /
   replace with Selector::unify as a parameter: the theorems hold for EVERY unify function.  Soundness of unify
   itself is NOT proved (unify is not modelled); it is checked per case by Run.C24. *)
From Coq Require Import List NArith Bool.
From RV Require Import Base.Text Model.Sel Model.SelAlg Model.SelNest Model.SelExt Run.C24 Proofs.C19 Proofs.C24.
Import ListNotations.
Local Open Scope list_scope.

(* selector.nest folds the very function used for nested rules *)
Theorem C24_nest_same : forall first rest, fn_nest first rest = nest_levels first rest.
Proof. exact nest_same. Qed.
Print Assumptions C24_nest_same.

(* selector.append(o, c) and `o { &c {...} }` give the same selector whenever unifying the appended compound with
   the empty compound is the identity (no :host rule, pseudo-element last and single, no repeated classes) *)
Theorem C24_append_same : forall o b ps a,
  is_local_empty o = false -> b_backref b = true -> forallb simple_pseudo ps = true ->
  let c0 := Comp (mkBase false (b_elem b) (b_phs b) (b_classes b) (b_id b) (b_attrs b)) ps in
  comp_cant_append c0 = false ->
  comp_append (s_comp o) c0 = Ok a ->
  unify_default a = Some a -> (s_rel o = None \/ comp_is_empty a = false) ->
  append_sel o (Sel None c0) = AOk (Sel (s_rel o) a)
  /\ rr_sel [o] (Sel None (Comp b ps)) = Ok [Sel (s_rel o) a].
Proof. exact append_same. Qed.
Print Assumptions C24_append_same.

(* extend: every block of the result starts with the complex selector it came from ... *)
Theorem C24_extend_head : forall (unify : sel -> sel -> list sel) extendee extender s,
  exists tl, extend_sel unify extendee extender s = s :: tl.
Proof. exact extend_sel_head. Qed.
Print Assumptions C24_extend_head.

(* ... so the result keeps all of s's complex selectors, in order, and only adds selectors *)
Theorem C24_extend_keeps : forall (unify : sel -> sel -> list sel) s extendee extender r,
  extend_set unify s extendee extender = Some r -> Subseq s r.
Proof. exact extend_keeps. Qed.
Print Assumptions C24_extend_keeps.

(* replace: identity when no original is a superselector of a member, nor of a member of the arguments of its
   :is / :matches / :not / :any / :where / :has / :host / :host-context pseudos *)
Theorem C24_replace_nomatch : forall (unify : sel -> sel -> list sel) s original replacement,
  existsb is_complex original = false -> forallb (nm_sel original) s = true ->
  replace_set unify s original replacement = Some s.
Proof. exact replace_nomatch. Qed.
Print Assumptions C24_replace_nomatch.

Example C24_hyps_sat :
  let s := [Sel None (Comp (mkBase false (Some [97%N]) [] [] None []) [])] in
  let x := [Sel None (Comp (mkBase false None [] [[122%N]] None []) [])] in
  existsb is_complex x = false /\ forallb (nm_sel x) s = true.
Proof. vm_compute. split; reflexivity. Qed.
