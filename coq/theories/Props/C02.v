(* C02 - Module loading terminates; only real cycles are loop errors.
   Property theorems only; proofs live in Proofs/C02.v.  State of /repo after the fixes d80c9be (urls are
   normalized before files are locked or looked up) and 2454c18 (a file loaded by meta.load-css stays
   locked until its body is evaluated): the statement now holds at full strength.
   `lookup` (the loader) and `content` (the files) are arbitrary = every file set, every graph of
   @import/@use/@forward/load-css loads and every spelling of the urls; `nedge` is the load graph
   (a directive of one file, resolved as Context::find_file resolves it, finds the other). *)
From Coq Require Import String List Bool Arith Relations.
From RV Require Import Gen.Candidates Model.Load Model.LoadRun Proofs.C02.
Import ListNotations.
Local Open Scope string_scope.
Local Open Scope list_scope.

(* a load that succeeds leaves Context.loading exactly as it found it (lock / unlock are balanced) *)
Theorem C02_ok_restores_locks : forall lookup content root fuel unq st cur idc d k u s s',
  chain lookup content root (cur :: st) -> incl (loading s) (cur :: st) -> lookup cur = Some idc ->
  In d (content idc) -> dir_load d = Some (k, u) ->
  load (orc_of lookup) content fuel unq cur k u s = ROk s' -> loading s' = loading s.
Proof. exact ok_restores_locks. Qed.
Print Assumptions C02_ok_restores_locks.

(* (iii) soundness: a loop error exhibits a cycle of the load graph reachable from the root *)
Theorem C02_loop_sound : forall lookup content root fuel rootid m s,
  lookup root = Some rootid ->
  run (orc_of lookup) content fuel root rootid = RErr (ELoop m) s ->
  exists p, clos_refl_trans _ (nedge lookup content) root p /\ clos_trans _ (nedge lookup content) p p.
Proof. exact loop_sound. Qed.
Print Assumptions C02_loop_sound.

(* an acyclic file set never gives a loop error, however often a file is loaded *)
Theorem C02_acyclic_no_loop : forall lookup content root (rank : string -> nat),
  (forall c p, nedge lookup content c p -> rank p < rank c) ->
  forall fuel rootid m s, lookup root = Some rootid ->
  run (orc_of lookup) content fuel root rootid <> RErr (ELoop m) s.
Proof. exact acyclic_no_loop. Qed.
Print Assumptions C02_acyclic_no_loop.

(* css is returned only if nothing reachable from the root lies on a cycle: when a file finishes for the
   first time, every file it loads has finished before *)
Theorem C02_ok_acyclic : forall lookup content root fuel rootid s,
  lookup root = Some rootid ->
  run (orc_of lookup) content fuel root rootid = ROk s ->
  forall p, clos_refl_trans _ (nedge lookup content) root p -> ~ clos_trans _ (nedge lookup content) p p.
Proof. exact ok_acyclic. Qed.
Print Assumptions C02_ok_acyclic.

(* (i) termination: if the loader knows finitely many names (a file SET), |names|+1 nested loads are
   enough, whatever the graph, the load kinds and the spellings: every file on the load stack is locked
   under its normalized name, and no name is locked twice *)
Theorem C02_terminates : forall lookup content root (U : list string),
  (forall p id, lookup p = Some id -> In p U) ->
  forall rootid, run (orc_of lookup) content (S (List.length U)) root rootid <> RFuel.
Proof. exact terminates. Qed.
Print Assumptions C02_terminates.

(* (ii) completeness: a cycle reachable from the root always ends the compilation with an error: it is
   never absorbed into css and never a divergence *)
Theorem C02_loop_complete : forall lookup content root (U : list string),
  (forall p id, lookup p = Some id -> In p U) ->
  forall rootid p, lookup root = Some rootid ->
  clos_refl_trans _ (nedge lookup content) root p -> clos_trans _ (nedge lookup content) p p ->
  exists e s, run (orc_of lookup) content (S (List.length U)) root rootid = RErr e s.
Proof. exact loop_complete. Qed.
Print Assumptions C02_loop_complete.

(* instance: every in-memory world (any graph, any kinds, any spellings) terminates *)
Definition mem_lookup (w : world) (u : string) : option string := if mem u (names w) then Some u else None.

Theorem C02_every_world_terminates : forall (w : world) (root : string),
  run (orc_of (mem_lookup w)) (assoc_body w) (S (List.length (names w))) root root <> RFuel.
Proof.
  intros w root. apply terminates. intros p id H. unfold mem_lookup in H.
  destruct (mem p (names w)) eqn:M; [|discriminate]. apply mem_In. exact M.
Qed.
Print Assumptions C02_every_world_terminates.

(* the former witnesses of F5 and F6 are loop errors now *)
Example C02_former_F5 :
  let w := [("t.scss", [DLoad KImport "./t"])] in
  exists s, run_world w MNorm "t.scss" "t.scss" = RErr (ELoop false) s.
Proof. eexists. vm_compute. reflexivity. Qed.

Example C02_former_F6 :
  let w := [("t.scss", [DLoad KLoadCss "a"]); ("a.scss", [DLoad KLoadCss "a"])] in
  exists s, run_world w (MMem NoFault) "t.scss" "t.scss" = RErr (ELoop true) s.
Proof. eexists. vm_compute. reflexivity. Qed.
