(* C02 - Module loading terminates; only real cycles are loop errors.
   Property theorems only; proofs live in Proofs/C02.v.
   `lookup` (the loader) and `content` (the files) are arbitrary: the theorems hold for every
   file set, every graph of @import/@use/@forward/load-css loads and every spelling of the urls. *)
From Coq Require Import String List Bool Arith Relations.
From RV Require Import Gen.Candidates Model.Load Model.LoadRun Proofs.C02.
Import ListNotations.
Local Open Scope string_scope.
Local Open Scope list_scope.

(* a load that succeeds leaves Context.loading exactly as it found it (lock / unlock are balanced,
   also for load-css, which unlocks before the body) *)
Theorem C02_ok_restores_locks : forall lookup content root fuel unq st cur idc d k u s s',
  chain lookup content root (cur :: st) -> incl (loading s) (cur :: st) -> lookup cur = Some idc ->
  In d (content idc) -> dir_load d = Some (k, u) ->
  load (orc_of lookup) content fuel unq cur k u s = ROk s' -> loading s' = loading s.
Proof. exact ok_restores_locks. Qed.
Print Assumptions C02_ok_restores_locks.

(* soundness of loop errors: the key found locked is the name of a file on the current load stack,
   so the load graph (edges = load directives as the code resolves them) has a cycle reachable
   from the root *)
Theorem C02_loop_sound : forall lookup content root fuel rootid m s,
  lookup root = Some rootid ->
  run (orc_of lookup) content fuel root rootid = RErr (ELoop m) s ->
  exists p, clos_refl_trans _ (nedge lookup content) root p /\ clos_trans _ (nedge lookup content) p p.
Proof. exact loop_sound. Qed.
Print Assumptions C02_loop_sound.

(* an acyclic file set (every load goes to a file of smaller rank) never gives a loop error,
   however often a file is loaded *)
Theorem C02_acyclic_no_loop : forall lookup content root (rank : string -> nat),
  (forall c p, nedge lookup content c p -> rank p < rank c) ->
  forall fuel rootid m s, lookup root = Some rootid ->
  run (orc_of lookup) content fuel root rootid <> RErr (ELoop m) s.
Proof. exact acyclic_no_loop. Qed.
Print Assumptions C02_acyclic_no_loop.

(* and it terminates: rank(root)+1 nested loads are enough *)
Theorem C02_acyclic_terminates : forall lookup content root (rank : string -> nat),
  (forall c p, nedge lookup content c p -> rank p < rank c) ->
  forall fuel rootid, lookup root = Some rootid -> rank root < fuel ->
  run (orc_of lookup) content fuel root rootid <> RFuel.
Proof. exact acyclic_terminates. Qed.
Print Assumptions C02_acyclic_terminates.

(* the full statement ("compilation terminates") is false of the faithful model *)
Definition C02_terminates_statement : Prop :=
  forall (w : world) (root : string), exists n, run (mem_oracle w NoFault) (assoc_body w) n root root <> RFuel.

(* F6: t.scss load-css'es a.scss, a.scss load-css'es itself: no amount of fuel is enough *)
Theorem C02_refuted_loadcss : forall n,
  run (mem_oracle w_loadcss NoFault) (assoc_body w_loadcss) n "t.scss" "t.scss" = RFuel.
Proof. exact refuted_loadcss. Qed.
Print Assumptions C02_refuted_loadcss.

Theorem C02_termination_refuted : ~ C02_terminates_statement.
Proof. intros H. destruct (H w_loadcss "t.scss") as [n Hn]. apply Hn. apply refuted_loadcss. Qed.
Print Assumptions C02_termination_refuted.

(* F5: t.scss imports "./t" (loader resolving `.` like a file system): the lock key of the k-th nested
   load is (./)^k t.scss, which was never locked before, so no fuel is enough and no loop is reported *)
Theorem C02_refuted_spelling : forall n,
  run (oracle_of w_spelling MNorm) (assoc_body w_spelling) n "t.scss" "t.scss" = RFuel.
Proof. exact refuted_spelling_all. Qed.
Print Assumptions C02_refuted_spelling.

(* the hypothesis of C02_loop_sound is satisfiable *)
Example C02_loop_example :
  let w := [("t.scss", [DLoad KUse "a"]); ("a.scss", [DLoad KUse "t"])] in
  exists s, run (oracle_of w (MMem NoFault)) (assoc_body w) 5 "t.scss" "t.scss" = RErr (ELoop true) s.
Proof. eexists. vm_compute. reflexivity. Qed.
