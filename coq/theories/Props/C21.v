(* C21 - Evaluated content is never silently dropped.  Theorems only.
   The model (Model/OutDest.v) has the four destinations of output/cssdest.rs
   with their Drop impls that log an error and continue; `d_lost` counts the
   errors swallowed that way, `wt_state mu` is the total weight of the leaf items
   held in all open destinations and the top level, for ANY weight function mu
   (so equal weights for all mu = equal multisets of leaf items). *)
From Coq Require Import List NArith Bool.
From RV Require Import Base.Text Model.Out Model.OutDest Spec.Reach Proofs.C21.
Import ListNotations.
Local Open Scope N_scope.

(* push_item can fail only with "inside a namespace rule", and only when a
   nested-property destination is open; the top level never fails *)
Theorem C21_drop_only_in_ns : forall fs root it e,
  push_item fs root it = Err e -> e = EInNs /\ no_ns fs = false.
Proof. intros fs root it e H. apply (push_item_f_err _ _ _ _ _ H). Qed.
Print Assumptions C21_drop_only_in_ns.

Theorem C21_top_level_accepts : forall root it, push_item [] root it = Ok ([], root_push root it).
Proof. exact root_accepts. Qed.
Print Assumptions C21_top_level_accepts.

(* a successful push loses nothing and invents nothing *)
Theorem C21_push_item_preserves : forall mu fs root it fs' root',
  push_item fs root it = Ok (fs', root') ->
  wt_state mu fs' root' = (wt_state mu fs root + wt mu it)%nat.
Proof. intros mu fs root it fs' root' H. apply (push_item_f_ok mu _ _ _ _ _ _ H). Qed.
Print Assumptions C21_push_item_preserves.

(* Drop of the innermost destination: without a nested-property destination below
   it no error is swallowed and every collected item reaches the parent *)
Theorem C21_close_no_loss : forall mu st, no_ns (tl (d_frames st)) = true ->
  d_lost (close st) = d_lost st
  /\ wt_state mu (d_frames (close st)) (d_root (close st)) = wt_state mu (d_frames st) (d_root st).
Proof. intros mu st H. destruct (close_no_loss mu st H) as [A [B _]]. split; assumption. Qed.
Print Assumptions C21_close_no_loss.

(* since rsass ac4acd7 (at-rule destinations cannot be opened inside a nested-property
   destination): for EVERY program of the statement subset, every fuel and both styles, a
   successful run has swallowed no error - the statement at full strength, no known class *)
Theorem C21_main : forall fuel compressed p st,
  eval_program fuel compressed p = Ok st -> d_lost st = 0%nat.
Proof. exact no_error_swallowed. Qed.
Print Assumptions C21_main.

(* every statement leaves the stack of open destinations as it found it and swallows nothing *)
Theorem C21_statement_keeps : forall fuel ms c cenv ctx st s st',
  wf (d_frames st) = true -> eval_item fuel ms c cenv ctx st s = Ok st' ->
  shape (d_frames st') = shape (d_frames st) /\ d_lost st' = d_lost st.
Proof. exact all_keeps. Qed.
Print Assumptions C21_statement_keeps.

(* the former F24 witness `a{ b:{ @media print{ c:d } } }` is now an error *)
Theorem C21_nsrule_block_is_error :
  compile FUEL Expanded (mkProg [] [SRule [SPlain [97]] [SNs [98] None [SMedia [112;114;105;110;116] [SDecl [99] [100]]]]])
  = Err EInNs.
Proof. vm_compute. reflexivity. Qed.
Print Assumptions C21_nsrule_block_is_error.

(* @error: a run that succeeds has not reached an @error, in any statement position
   (rule, nested property, at-rule, @at-root, @if, loop, mixin body, content block) *)
Theorem C21_error_propagates : forall fuel compressed p st,
  eval_program fuel compressed p = Ok st -> has_error (reach_program fuel p) = false.
Proof. exact program_ok_no_error. Qed.
Print Assumptions C21_error_propagates.

(* loops (@each / @for / @while): the error of iteration k is the result of the loop, whatever the
   iterations after it would do (the seeded change C21-1 overwrote it with a later Ok) *)
Theorem C21_loop_error_not_overwritten : forall n ms c cenv ctx st proto bs1 b bs2 st1 e,
  check_body BControl proto = true ->
  each_fold (fun b st => run_body (eval_item n ms c cenv ctx) b st) bs1 st = Ok st1 ->
  run_body (eval_item n ms c cenv ctx) b st1 = Err e ->
  eval_item (S n) ms c cenv ctx st (SEach proto (bs1 ++ b :: bs2)) = Err e.
Proof. exact loop_error_not_overwritten. Qed.
Print Assumptions C21_loop_error_not_overwritten.

Example wf_example : wf [FNs [98]; FNs [97]; FRule ([same_leaf [120]], []); FMedia (MName [112]) None []] = true.
Proof. reflexivity. Qed.
