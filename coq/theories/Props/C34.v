(* C34 - Global and module function forms agree.  Theorems only; proofs in Proofs/C34.v.
   Gen/Builtins.v is regenerated from rsass/src/sass/functions/**.rs on every check. *)
From Coq Require Import String List Bool.
From RV Require Import Gen.Builtins Model.Builtins Spec.SassDocPairs Proofs.C34.
Import ListNotations.

(* every clone taken into the global map exists; every module definition belongs to a registered module *)
Theorem C34_tables_wf : tables_wf = true.
Proof. exact tables_wf_ok. Qed.
Print Assumptions C34_tables_wf.

(* every pair the Sass documentation declares equivalent, except the four names with a separate global
   definition, resolves to ONE function object: the global name is bound to a clone of the module function,
   and no later insertion rebinds it *)
Theorem C34_same_object : forall g url f, In (g, (url, f)) doc_pairs -> is_diverging g = false ->
  lookup_global g = Some (url, f) /\ lookup_module url f = Some (url, f).
Proof. exact same_object_all. Qed.
Print Assumptions C34_same_object.

(* hence one FormalArgs: positional and named binding go through the same parameter list under both names *)
Theorem C34_same_formals : forall g url f, In (g, (url, f)) doc_pairs -> is_diverging g = false ->
  match lookup_global g, lookup_module url f with
  | Some o, Some o' => formals_of_obj o = formals_of_obj o'
  | _, _ => False
  end.
Proof. exact same_formals. Qed.
Print Assumptions C34_same_formals.

(* the exception list is exact: these documented names really are bound to a different object *)
Theorem C34_diverging_exact : forall g, In g diverging ->
  exists url f o o', In (g, (url, f)) doc_pairs /\ lookup_global g = Some o /\ lookup_module url f = Some o' /\ o <> o'.
Proof. exact diverging_all. Qed.
Print Assumptions C34_diverging_exact.

(* insertions under other names never change what a name is bound to *)
Theorem C34_resolve_frame : forall evs g acc,
  forallb (fun e => match e with GFrom _ gn _ => negb (String.eqb gn g) | GDef _ d => negb (String.eqb (fst d) g) end) evs = true ->
  resolve evs g acc = acc.
Proof. exact resolve_other. Qed.
Print Assumptions C34_resolve_frame.

Example C34_nonvacuous :
  In ("str-length", ("sass:string", "length"))%string doc_pairs /\ is_diverging "str-length" = false
  /\ In "abs"%string diverging.
Proof. vm_compute. repeat split; auto 80. Qed.
