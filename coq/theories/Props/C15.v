(* C15 - Operators follow Sass precedence and associativity.
   Property theorems only; proofs live in Proofs/C15.v.

   tree / pr / eval_spec : Spec/SassExpr.v (the Sass grouping, canonical text, reference value)
   parse / canon         : Model/ExprParse.v (the layering of parser/value.rs; the tree it builds)
   aeval / model_value   : Model/ExprEval.v  (BinOp::eval, Operator::eval)
   known_K1..K4          : Run/C15.v (decidable classes of trees, see known_findings/C15.json) *)
From Coq Require Import List NArith ZArith Bool.
From RV Require Import Base.F64 Spec.SassExpr Model.ExprParse Model.ExprEval Model.ExprTie Run.C15 Proofs.C15.
Import ListNotations.

(* the operator tables of value/operator.rs and the layers of parser/value.rs are the ones modelled *)
Theorem C15_operators_tie : operators_tie = true.
Proof. exact tie_ok. Qed.
Print Assumptions C15_operators_tie.

(* every tree, of any size, printed with minimal parentheses is read back as `canon t`
   (left-nested at the three folded layers, and/or chains nested to the right),
   unless `==`/`!=` is followed by an unparenthesised relational operand (K2) *)
Theorem C15_parse_print : forall t, known_K2 t = false -> parse (pr t) = Some (canon t).
Proof. exact parse_print. Qed.
Print Assumptions C15_parse_print.

(* the right-nested and/or chains have the value of Sass's grouping unless an `and`
   precedes an `or` in a chain (K1) *)
Theorem C15_chain_value : forall t, known_K1 t = false -> aeval (canon t) = eval_nodes t.
Proof. exact canon_value. Qed.
Print Assumptions C15_chain_value.

(* precedence and associativity: outside K1 and K2 the value rsass computes for the text of
   ANY tree is the value of the tree grouped as Sass prescribes (each node evaluated by
   rsass's own operator) *)
Theorem C15_grouping : forall t, known_K1 t = false -> known_K2 t = false ->
  model_value t = eval_nodes t.
Proof. exact grouping. Qed.
Print Assumptions C15_grouping.

(* rsass's operators agree with the reference on the small operand set, outside K4
   (the `%` class K3 is gone since fix cc06893) *)
Theorem C15_nodes_small : forall o a a' b b',
  In (a, a') small_pairs -> In (b, b') small_pairs -> In o strict_ops ->
  k4_pair o a b = false ->
  agree_b (spec_bin o a b) (m_bin o a' b') = true.
Proof. exact node_small. Qed.
Print Assumptions C15_nodes_small.

(* the statement as the property gives it, without exclusions *)
Definition C15_statement : Prop := full_statement.

(* main theorem: outside the three recorded classes, any tree whose subtrees have small
   reference values evaluates as the Sass grammar prescribes *)
Theorem C15_main : forall t,
  known_K1 t = false -> known_K2 t = false -> known_K4 t = false ->
  all_small t = true ->
  agree_b (eval_spec t) (model_value t) = true.
Proof. exact main. Qed.
Print Assumptions C15_main.

(* each class really contains a counterexample to the full statement (F22, F30, F31) *)
Theorem C15_refuted_and_or : exists t, known_K1 t = true /\ agree_b (eval_spec t) (model_value t) = false.
Proof. exact refuted_and_or. Qed.
Print Assumptions C15_refuted_and_or.
Theorem C15_refuted_eq_rel : exists t, known_K2 t = true /\ agree_b (eval_spec t) (model_value t) = false.
Proof. exact refuted_eq_rel. Qed.
Print Assumptions C15_refuted_eq_rel.
(* `-2 % 2` now is 0 as in Sass (fixed finding F30) *)
Theorem C15_mod_fixed :
  agree_b (eval_spec (TBin BMod (TNeg (TNum 2)) (TNum 2))) (model_value (TBin BMod (TNeg (TNum 2)) (TNum 2))) = true.
Proof. exact mod_fixed. Qed.
Print Assumptions C15_mod_fixed.
Theorem C15_refuted_rel_bool : exists t, known_K4 t = true /\ agree_b (eval_spec t) (model_value t) = false.
Proof. exact refuted_rel_bool. Qed.
Print Assumptions C15_refuted_rel_bool.

(* exhaustive: every tree with one binary operator over {0,1,2,true,false} and their
   unary variants, and every tree with two binary operators over {0,2,true,false}, is in a
   recorded class or has small subtrees and the reference value *)
Theorem C15_small_trees : forall t, In t (trees1 ++ trees2) -> tree_ok t = true.
Proof.
  intros t H. apply in_app_or in H. destruct H as [H|H].
  - exact (Base.ListX.sweep1 trees1 tree_ok sweep_trees1 t H).
  - exact (Base.ListX.sweep1 trees2 tree_ok sweep_trees2 t H).
Qed.
Print Assumptions C15_small_trees.

(* non-vacuity: a tree with three levels of precedence meeting every hypothesis of C15_main *)
Example C15_nonvacuous :
  let t := TBin BOr (TBin BLt (TBin BPlus (TNum 1) (TBin BMul (TNum 2) (TNeg (TNum 2)))) (TNum 2))
                    (TBin BAnd (TNot (TBool false)) (TBin BEq (TBin BMod (TNum 2) (TNeg (TNum 1))) (TNum 0))) in
  known_K1 t = false /\ known_K2 t = false /\ known_K4 t = false /\ all_small t = true.
Proof. vm_compute. auto. Qed.
