(* C15 - Operators follow Sass precedence and associativity. *)
From Coq Require Import List NArith ZArith Bool.
From RV Require Import Base.F64 Spec.SassExpr Model.ExprParse Model.ExprEval Model.ExprTie Run.C15 Proofs.C15.
Import ListNotations.

(* the operator tables of value/operator.rs and the layers of parser/value.rs are the ones modelled *)
Theorem C15_operators_tie : operators_tie = true.
Proof. exact tie_ok. Qed.
Print Assumptions C15_operators_tie.
