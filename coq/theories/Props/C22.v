(* C22 - Placeholder selectors never reach the output.
   Property theorems only; proofs live in Proofs/C22.v.  np_sel / np_comp / np_pseudo / np_sels are
   the model of no_placeholder on Selector / CompoundSelector / Pseudo / SelectorSet, model_out is
   Rule::write's decision (None = rule not emitted). *)
From Coq Require Import List NArith Bool.
From RV Require Import Model.Sel Model.SelFmt Model.SelAlg Spec.SelVisible Run.C22 Proofs.C22.
Import ListNotations.
Import String.StringSyntax.
Local Open Scope string_scope.
Local Open Scope list_scope.

(* whatever survives the filtering contains no placeholder, at any nesting depth: all selectors *)
Theorem C22_clean : forall s s', np_sel s = OSome s' -> hasph_sel s' = false.
Proof. exact clean_sel. Qed.
Print Assumptions C22_clean.

Theorem C22_clean_list : forall l l', np_sels l = OSome l' -> hasph_sels l' = false.
Proof. exact clean_sels. Qed.
Print Assumptions C22_clean_list.

(* a complex selector with a placeholder in one of its own compounds is removed *)
Theorem C22_removed_top : forall s, top_ph s = true -> np_sel s = ONone.
Proof. exact removed_top. Qed.
Print Assumptions C22_removed_top.

(* the emitted list is the order-preserving filter-map of the source list *)
Theorem C22_order : forall l l', np_sels l = OSome l' ->
  l' = flat_map (fun s => match np_sel s with OSome t => [t] | _ => [] end) l /\ l' <> [].
Proof. exact order_spec. Qed.
Print Assumptions C22_order.

(* the rule is skipped exactly when every complex selector is removed *)
Theorem C22_rule_skipped : forall l,
  model_out l = None <-> (forall s, In s l -> forall t, np_sel s <> OSome t).
Proof. exact rule_skipped. Qed.
Print Assumptions C22_rule_skipped.

(* outside the recorded class the filtering is exactly the Sass semantics of Spec/SelVisible.v:
   selectors that match nothing are removed (also inside selector pseudos, `:not` inverted) *)
Theorem C22_matches_sass_semantics : forall l,
  plain_sels l = true -> vanish_sels l = false ->
  np_sels l = match spec_visible l with [] => ONone | v => OSome v end.
Proof. exact semantics_sels. Qed.
Print Assumptions C22_matches_sass_semantics.

(* placeholder-free lists are left alone *)
Theorem C22_id : forall l, l <> [] -> hasph_sels l = false -> plain_sels l = true -> np_sels l = OSome l.
Proof. exact id_sels. Qed.
Print Assumptions C22_id.

(* the full statement is false of the faithful model: `:not(%r), b` is emitted as `, b` *)
Definition C22_statement : Prop :=
  forall l, plain_sels l = true -> model_out l = spec_out l.
Theorem C22_refuted_vanishing_compound :
  plain_sels witness_K1 = true /\ vanish_sels witness_K1 = true
  /\ model_out witness_K1 = Some (str ", b") /\ spec_out witness_K1 = Some (str "*, b").
Proof. exact refuted_K1. Qed.
Print Assumptions C22_refuted_vanishing_compound.

(* the hypotheses are satisfiable *)
Example C22_hyps_sat :
  let l := [Sel None (Comp (mkBase false (Some (str "a")) [] [str "c"] None []) [])] in
  l <> [] /\ hasph_sels l = false /\ plain_sels l = true /\ vanish_sels l = false.
Proof. cbv zeta. split; [discriminate|]. vm_compute. repeat split; reflexivity. Qed.
