(* C28 - List functions follow the Sass list model.  Theorems only; proofs in Proofs/C28.v.
   All statements quantify over every value / list of the model and every integer index. *)
From Coq Require Import String List NArith ZArith Bool.
From RV Require Import Base.Text Base.ListX Model.CssStr Model.ValueLite Model.ListFns Spec.SassLists Run.C28 Proofs.C28.
Import ListNotations.
Local Open Scope list_scope.
Local Open Scope Z_scope.

(* nth and set-nth accept exactly 1..len and -len..-1 (every other integer, 0 included, is an error) *)
Theorem C28_index_of : forall n len i,
  index_of n len = Some i <->
  (1 <= n <= Z.of_nat len /\ Z.of_nat i = n - 1) \/ (- Z.of_nat len <= n <= -1 /\ Z.of_nat i = Z.of_nat len + n).
Proof. exact index_of_spec. Qed.
Print Assumptions C28_index_of.

Theorem C28_nth : forall l s b n v,
  f_nth (VList l s b) n = ROk v <-> exists i, index_of n (length l) = Some i /\ nth_error l i = Some v.
Proof. exact nth_list. Qed.
Print Assumptions C28_nth.

(* set-nth changes only the addressed element; separator and brackets are kept *)
Theorem C28_set_nth : forall l n x r,
  f_set_nth l n x = ROk r ->
  let '(items, s, b) := get_list l in
  exists i items', index_of n (length items) = Some i /\ r = VList items' s b /\
     length items' = length items /\ nth_error items' i = Some x /\
     (forall j, j <> i -> nth_error items' j = nth_error items j).
Proof. exact set_nth_law. Qed.
Print Assumptions C28_set_nth.

(* append: elements followed by the value; separator explicit, else the list's own, else space; brackets kept *)
Theorem C28_append : forall l x sepv r,
  f_append l x sepv = ROk r ->
  let '(items, s, b) := get_list l in
  exists e, check_separator sepv = Some e /\
    r = VList (items ++ [x]) (Some match e with Some k => k | None => match s with Some k => k | None => SSpace end end) b.
Proof. exact append_law. Qed.
Print Assumptions C28_append.

(* join: concatenation; separator explicit, else the first list that has one, else space;
   brackets explicit (truthiness), else the first list's *)
Theorem C28_join : forall a b sepv brav r,
  f_join a b sepv brav = ROk r ->
  let '(i1, s1, b1) := get_list a in
  let '(i2, s2, _) := get_list b in
  exists e, check_separator sepv = Some e /\
    r = VList (i1 ++ i2)
          (Some match e, s1, s2 with
                | Some k, _, _ => k | None, Some k, _ => k | None, None, Some k => k | None, None, None => SSpace end)
          (if str_is brav "auto" then b1 else is_true brav).
Proof. exact join_law. Qed.
Print Assumptions C28_join.

(* index on a list: the 1-based position of the first element == x, null when there is none *)
Theorem C28_index : forall items s b x,
  f_index (VList items s b) x = ROk (sp_index (VList items s b) x) /\
  (forall i, first_pos items x = Some i <->
     (exists y, nth_error items i = Some y /\ veq y x = true) /\
     (forall j y, (j < i)%nat -> nth_error items j = Some y -> veq y x = false)) /\
  (first_pos items x = None <-> forall y, In y items -> veq y x = false).
Proof. intros. split; [apply index_list_refines|]. split; [intros; apply first_pos_spec|apply first_pos_none]. Qed.
Print Assumptions C28_index.

(* zip: as many rows as the shortest argument has items; row k collects the k-th items, space separated *)
Theorem C28_zip : forall ls r,
  f_zip ls = ROk r ->
  exists rows, r = VList rows (Some SComma) false /\
    (forall l, In l (map iter_items ls) -> (length rows <= length l)%nat) /\
    (ls <> [] -> exists l, In l (map iter_items ls) /\ length rows = length l) /\
    (forall k, (k < length rows)%nat ->
       nth_error rows k = Some (VList (map (fun l => nth k l VNull) (map iter_items ls)) (Some SSpace) false)).
Proof. exact zip_law. Qed.
Print Assumptions C28_zip.

Theorem C28_length_separator_bracketed : forall l,
  f_length l = ROk (sp_length l) /\
  (match l with VList _ (Some SSlashNoSpace) _ => False | _ => True end -> f_separator l = ROk (sp_separator l)) /\
  f_is_bracketed l = ROk (sp_is_bracketed l).
Proof. intros. split; [apply length_refines|]. split; [apply separator_refines|apply bracketed_refines]. Qed.
Print Assumptions C28_length_separator_bracketed.

(* a non-empty map acts as the comma list of its key/value pairs *)
Theorem C28_map_as_pairs : forall m, m <> [] ->
  get_list (VMap m) = (map pair_list m, Some SComma, false) /\
  f_length (VMap m) = ROk (v_int (Z.of_nat (length m))) /\
  iter_items (VMap m) = map pair_list m.
Proof. exact map_as_pairs. Qed.
Print Assumptions C28_map_as_pairs.

(* the model functions ARE the reference functions: every value (lists, maps, argument lists,
   singletons), every integer index, every separator / bracket argument; index for every value
   that is not a map (lists, argument lists, singletons) *)
Theorem C28_refines :
  (forall l n, res_to_opt (f_nth l n) = sp_nth l n) /\
  (forall l n x, res_to_opt (f_set_nth l n x) = sp_set_nth l n x) /\
  (forall l x sepv, res_to_opt (f_append l x sepv) = sp_append l x sepv) /\
  (forall a b sepv brav, res_to_opt (f_join a b sepv brav) = sp_join a b sepv brav) /\
  (forall l x, match l with VMap _ => False | _ => True end -> f_index l x = ROk (sp_index l x)).
Proof.
  split; [exact nth_refines|]. split; [exact set_nth_refines|]. split; [exact append_refines|].
  split; [exact join_refines|exact index_single_refines].
Qed.
Print Assumptions C28_refines.

(* == (used by index) on lists is the reference list equality; the separator counts for every length *)
Theorem C28_list_eq : forall a b, veq a b = sp_equal a b.
Proof. exact list_eq_refines. Qed.
Print Assumptions C28_list_eq.

Theorem C28_short_list_sep_matters : forall x,
  veq (VList [x] (Some SSpace) false) (VList [x] (Some SComma) false) = false /\
  veq (VList [] (Some SSpace) false) (VList [] (Some SComma) false) = false /\
  veq (VList [] None false) (VList [] (Some SSpace) false) = false.
Proof. exact short_list_sep_matters. Qed.
Print Assumptions C28_short_list_sep_matters.

Example C28_hyps_sat : exists r, f_set_nth (VList [v_int 1; v_int 2] (Some SComma) true) (-1) VNull = ROk r.
Proof. eexists. reflexivity. Qed.
