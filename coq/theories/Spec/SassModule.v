(* Reference semantics of the module system rules named by the property,
   written from its text (and the Sass module-system documentation). *)
From Coq Require Import String Ascii List ZArith Bool.
From RV Require Import Model.EvArgs Model.EvModule.
Import ListNotations.
Local Open Scope string_scope.
Local Open Scope list_scope.

(* the namespace is the last URL segment without a leading underscore or extension *)
(* URL segments are separated by `/` (and by the `:` of a scheme such as sass:) *)
Fixpoint split_on (sep : ascii -> bool) (s : string) (cur : string) : list string :=
  match s with
  | EmptyString => [cur]
  | String c r => if sep c then cur :: split_on sep r EmptyString
                  else split_on sep r (String.append cur (String c EmptyString))
  end.
Definition url_sep (c : ascii) : bool := Ascii.eqb c "/"%char || Ascii.eqb c ":"%char.
Definition last_segment (url : string) : string := last (split_on url_sep url EmptyString) EmptyString.
Definition strip_underscore (s : string) : string :=
  match s with String "_"%char r => r | _ => s end.
Definition strip_extension (s : string) : string :=
  match split_on (Ascii.eqb "."%char) s EmptyString with
  | [base; ext] =>
      if String.eqb ext "scss" || String.eqb ext "sass" || String.eqb ext "css" then base else s
  | _ => s
  end.
Definition spec_namespace (url : string) : string := strip_extension (strip_underscore (last_segment url)).

(* show/hide/prefix filter and rename exactly the listed members: the lists name the members as the
   user sees them (after prefixing); `$x` entries concern variables, plain entries functions and mixins *)
Definition listed (n : string) (l : list string) : bool := existsb (fun x => String.eqb (norm n) (norm x)) l.
Definition visible_fun (e : expose) (n : string) : bool :=
  match e with EAll => true | EShow f _ => listed n f | EHide f _ => negb (listed n f) end.
Definition visible_var (e : expose) (n : string) : bool :=
  match e with EAll => true | EShow _ v => listed n v | EHide _ v => negb (listed n v) end.
Definition rename (pfx : option string) (n : string) : string :=
  match pfx with None => n | Some p => String.append p n end.
Definition spec_forward_view (m : members) (pfx : option string) (e : expose) : members :=
  mkMem (filter (fun kv => visible_var e (fst kv)) (map (fun kv => (rename pfx (fst kv), snd kv)) (m_vars m)))
        (filter (visible_fun e) (map (rename pfx) (m_funs m)))
        (filter (visible_fun e) (map (rename pfx) (m_mixins m))).

(* built-in modules can be neither configured nor assigned to - also when their members reach the user
   through a forwarding module; the forwarding module's own !default variable can be both *)
Definition spec_fwd_builtin (a : fb_action) (pfx : option string) (e : expose) : fb_res :=
  match a with
  | FAssignBuiltin | FConfigBuiltin => FErr
  | FAssignOwn | FConfigOwn => FOk 3
  | FReadBuiltin => if visible_var e (rename pfx "pi") then FOk 0 else FErr
  end.

(* `with` sets only variables the module declares with !default; configuring an unknown or an
   already configured variable is an error *)
Definition declares_default (decls : list (string * Z * bool)) (k : string) : bool :=
  existsb (fun d => let '(k', _, dflt) := d in dflt && String.eqb (norm k) (norm k')) decls.
Fixpoint cfg_dup (cfg : list (string * Z)) : bool :=
  match cfg with
  | [] => false
  | (k, _) :: r => existsb (fun kv => String.eqb (norm k) (norm (fst kv))) r || cfg_dup r
  end.
Definition spec_decl (cfg : list (string * Z)) (env : list (string * Z)) (d : string * Z * bool) : list (string * Z) :=
  let '(k, v, dflt) := d in
  if dflt then
    match env_get env k with
    | Some _ => env                                  (* already has a value *)
    | None => env_set env k (match env_get cfg k with Some c => c | None => v end)   (* the configured value replaces the default *)
    end
  else env_set env k v.
Definition spec_configure (decls : list (string * Z * bool)) (cfg : list (string * Z)) : option (list (string * Z)) :=
  if cfg_dup cfg then None
  else if negb (forallb (fun kv => declares_default decls (fst kv)) cfg) then None
  else Some (fold_left (spec_decl cfg) decls []).
