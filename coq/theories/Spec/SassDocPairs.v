(* The global / module function pairs that the Sass documentation (sass-lang.com/documentation/modules)
   presents as two names of one function: each entry of the module pages whose heading lists both
   `module.name(..)` and a global name.  Hand written from the documentation, NOT from rsass.
   (global name, module url, name inside the module) *)
From Coq Require Import String List.
Import ListNotations.
Local Open Scope string_scope.

Definition doc_pairs : list (string * (string * string)) :=
  [ (* sass:color *)
    ("adjust-color", ("sass:color", "adjust")); ("alpha", ("sass:color", "alpha")); ("opacity", ("sass:color", "opacity"));
    ("blue", ("sass:color", "blue")); ("change-color", ("sass:color", "change")); ("complement", ("sass:color", "complement"));
    ("grayscale", ("sass:color", "grayscale")); ("green", ("sass:color", "green")); ("hue", ("sass:color", "hue"));
    ("hwb", ("sass:color", "hwb")); ("ie-hex-str", ("sass:color", "ie-hex-str")); ("invert", ("sass:color", "invert"));
    ("lightness", ("sass:color", "lightness")); ("mix", ("sass:color", "mix")); ("red", ("sass:color", "red"));
    ("saturation", ("sass:color", "saturation")); ("scale-color", ("sass:color", "scale"));
    (* sass:list *)
    ("append", ("sass:list", "append")); ("index", ("sass:list", "index")); ("is-bracketed", ("sass:list", "is-bracketed"));
    ("join", ("sass:list", "join")); ("length", ("sass:list", "length")); ("list-separator", ("sass:list", "separator"));
    ("nth", ("sass:list", "nth")); ("set-nth", ("sass:list", "set-nth")); ("zip", ("sass:list", "zip"));
    (* sass:map *)
    ("map-get", ("sass:map", "get")); ("map-has-key", ("sass:map", "has-key")); ("map-keys", ("sass:map", "keys"));
    ("map-merge", ("sass:map", "merge")); ("map-remove", ("sass:map", "remove")); ("map-values", ("sass:map", "values"));
    (* sass:math *)
    ("ceil", ("sass:math", "ceil")); ("floor", ("sass:math", "floor")); ("max", ("sass:math", "max")); ("min", ("sass:math", "min"));
    ("round", ("sass:math", "round")); ("abs", ("sass:math", "abs")); ("comparable", ("sass:math", "compatible"));
    ("unitless", ("sass:math", "is-unitless")); ("unit", ("sass:math", "unit")); ("percentage", ("sass:math", "percentage"));
    ("random", ("sass:math", "random"));
    (* sass:meta *)
    ("call", ("sass:meta", "call")); ("content-exists", ("sass:meta", "content-exists"));
    ("feature-exists", ("sass:meta", "feature-exists")); ("function-exists", ("sass:meta", "function-exists"));
    ("get-function", ("sass:meta", "get-function")); ("global-variable-exists", ("sass:meta", "global-variable-exists"));
    ("inspect", ("sass:meta", "inspect")); ("keywords", ("sass:meta", "keywords")); ("mixin-exists", ("sass:meta", "mixin-exists"));
    ("type-of", ("sass:meta", "type-of")); ("variable-exists", ("sass:meta", "variable-exists"));
    (* sass:selector *)
    ("is-superselector", ("sass:selector", "is-superselector")); ("selector-append", ("sass:selector", "append"));
    ("selector-extend", ("sass:selector", "extend")); ("selector-nest", ("sass:selector", "nest"));
    ("selector-parse", ("sass:selector", "parse")); ("selector-replace", ("sass:selector", "replace"));
    ("selector-unify", ("sass:selector", "unify")); ("simple-selectors", ("sass:selector", "simple-selectors"));
    (* sass:string *)
    ("quote", ("sass:string", "quote")); ("str-index", ("sass:string", "index")); ("str-insert", ("sass:string", "insert"));
    ("str-length", ("sass:string", "length")); ("str-slice", ("sass:string", "slice"));
    ("to-upper-case", ("sass:string", "to-upper-case")); ("to-lower-case", ("sass:string", "to-lower-case"));
    ("unique-id", ("sass:string", "unique-id")); ("unquote", ("sass:string", "unquote")) ].
