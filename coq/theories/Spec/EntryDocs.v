(* What the rsass documentation / the property text says the entry points compute, as compositions
   of library operations.  `lib name args` stands for the library operation `name`; nothing is assumed
   about it.  Written from the doc comments of lib.rs ("Parse scss data from a buffer and write css in the
   given style", "Any @import directives will be handled relative to the directory part of file") and the
   property statements C38 / C40, NOT from the function bodies.  None = the library answered with a value
   of an unexpected shape. *)
From Coq Require Import String List.
From RV Require Import Model.Entry.
Import ListNotations.
Local Open Scope string_scope.

Section Docs.
  Variable lib : string -> list val -> val.
  Definition from_err (e : val) : val := VErr (lib "From::from" [e]).

  (* compile_scss(bytes, format) = transform, in a filesystem context for the current directory with that
     format, of an scss source made of these bytes (named "-") *)
  Definition doc_compile_scss (input format : val) : val :=
    lib "transform" [lib "with_format" [lib "FsContext::for_cwd" []; format];
                     lib "SourceFile::scss_bytes" [input; lib "SourceName::root" [VStr "-"]]].

  (* compile_scss_path(p, format): context and source come from FsContext::for_path(p); failure of that step
     is the failure of the whole *)
  Definition doc_compile_scss_path (path format : val) : option val :=
    match lib "FsContext::for_path" [path] with
    | VOk (VTuple [ctx; src]) => Some (lib "transform" [lib "with_format" [ctx; format]; src])
    | VErr e => Some (from_err e)
    | _ => None
    end.

  (* FsContext::for_path(p) = (context for the loader, source) where both come from FsLoader::for_path(p) *)
  Definition doc_fscontext_for_path (path : val) : option val :=
    match lib "FsLoader::for_path" [path] with
    | VOk (VTuple [ld; file]) => Some (VOk (VTuple [lib "Self::for_loader" [ld]; file]))
    | VErr e => Some (from_err e)
    | _ => None
    end.

  (* compile_value(v, format): parse, evaluate in a fresh global scope with that format, print with that format *)
  Definition doc_compile_value (input format : val) : option val :=
    match lib "parse_value_data" [input] with
    | VOk pv =>
        match lib "evaluate" [pv; lib "ScopeRef::new_global" [format]] with
        | VOk v => Some (VOk (lib "into_bytes" [lib "to_string" [lib "format" [v; format]]]))
        | VErr e => Some (from_err e)
        | _ => None
        end
    | VErr e => Some (from_err e)
    | _ => None
    end.

  (* --- the command line tool (C40) --- *)
  (* one input file: Ok bytes | Err error *)
  Definition doc_cli_compile1 (format load_path name : val) : option val :=
    match lib "FsContext::for_path" [name] with
    | VOk (VTuple [ctx; src]) =>
        let ctx' := match load_path with
                    | VSome p => lib "push_path" [ctx; lib "as_ref" [p]]
                    | _ => ctx
                    end in
        match lib "transform" [lib "with_format" [ctx'; format]; src] with
        | VOk r => Some (VOk r)
        | VErr e => Some (from_err e)
        | _ => None
        end
    | VErr e => Some (from_err e)
    | _ => None
    end.

  (* all inputs in order: the outputs of the files before the first failure are written; the result is
     Ok(()) when every file compiled, else the first error *)
  Fixpoint doc_cli_run (format load_path : val) (names : list val) (written : list val) : option (val * list val) :=
    match names with
    | [] => Some (VOk VUnit, written)
    | n :: r =>
        match doc_cli_compile1 format load_path n with
        | Some (VOk bytes) => doc_cli_run format load_path r (written ++ [bytes])
        | Some (VErr e) => Some (VErr e, written)
        | _ => None
        end
    end.

  Definition doc_cli_format (style precision : val) : val :=
    VRec "Format" [("style", lib "into" [style]); ("precision", precision)].
End Docs.
