(* Reference semantics of placeholder selectors, written from the Sass documentation
   (https://sass-lang.com/documentation/style-rules/placeholder-selectors and the selector
   specification), NOT from rsass:
   - a placeholder `%x` matches no element;
   - a compound selector matches nothing when one of its simple selectors matches nothing;
   - a complex selector matches nothing when one of its compounds matches nothing;
   - `:not(L)` never makes a compound match nothing; when every complex selector of L matches
     nothing `:not(L)` matches every element and is left out; otherwise the members of L that
     match nothing are left out;
   - every other selector pseudo `:p(L)` matches nothing when every member of L matches
     nothing; otherwise the members of L that match nothing are left out;
   - a selector list is emitted without its members that match nothing, a rule whose list
     becomes empty is not emitted; a compound that has no simple selector left is `*`. *)
From Coq Require Import List NArith Bool.
From RV Require Import Model.Sel.
Import ListNotations.
Import String.StringSyntax.
Local Open Scope string_scope.
Local Open Scope list_scope.

Definition spec_is_not (n : text) : bool := name_in n [str "not"].

(* "matches nothing because of a placeholder" *)
Fixpoint inv_sel (s : sel) : bool :=
  match s with
  | Sel rel c => inv_comp c || match rel with Some (_, r) => inv_sel r | None => false end
  end
with inv_comp (c : compound) : bool :=
  match c with Comp b ps => negb (is_nil (b_phs b)) || existsb inv_pseudo ps end
with inv_pseudo (p : pseudo) : bool :=
  match p with
  | Pseudo n _ (ArgSel l) => if spec_is_not n then false else forallb inv_sel l
  | Pseudo _ _ _ => false
  end.

(* the visible remainder of a selector that matches something *)
Fixpoint strip_sel (s : sel) : sel :=
  match s with
  | Sel rel c => Sel (match rel with Some (k, r) => Some (k, strip_sel r) | None => None end) (strip_comp c)
  end
with strip_comp (c : compound) : compound :=
  match c with Comp b ps => Comp b (flat_map strip_pseudo ps) end
with strip_pseudo (p : pseudo) : list pseudo :=
  match p with
  | Pseudo n e (ArgSel l) =>
      match flat_map (fun s => if inv_sel s then [] else [strip_sel s]) l with
      | [] => if spec_is_not n then [] else [p]
      | l' => [Pseudo n e (ArgSel l')]
      end
  | Pseudo _ _ _ => [p]
  end.

Definition spec_visible (l : sels) : sels :=
  flat_map (fun s => if inv_sel s then [] else [strip_sel s]) l.

(* a compound with nothing left stands for the universal selector *)
Definition star_base : cbase := mkBase false (Some (str "*")) [] [] None [].
Fixpoint star_sel (s : sel) : sel :=
  match s with
  | Sel rel c => Sel (match rel with Some (k, r) => Some (k, star_sel r) | None => None end) (star_comp c)
  end
with star_comp (c : compound) : compound :=
  match c with
  | Comp b ps =>
      let ps' := map star_pseudo ps in
      if comp_is_empty c then Comp star_base [] else Comp b ps'
  end
with star_pseudo (p : pseudo) : pseudo :=
  match p with
  | Pseudo n e (ArgSel l) => Pseudo n e (ArgSel (map star_sel l))
  | Pseudo _ _ _ => p
  end.

(* what a rule with selector list l emits: None = the rule is not emitted *)
Definition spec_emitted (l : sels) : option sels :=
  match spec_visible l with
  | [] => None
  | v => Some (map star_sel v)
  end.

(* --- the inputs the statement talks about: no empty compound next to a combinator
   (`> a`, `a > > b`, `a >`), no empty selector-pseudo argument --- *)
Fixpoint plain_sel (s : sel) : bool :=
  match s with
  | Sel rel c => negb (comp_is_empty c) && plain_comp c
                 && match rel with Some (_, r) => plain_sel r | None => true end
  end
with plain_comp (c : compound) : bool :=
  match c with Comp b ps => forallb plain_pseudo ps end
with plain_pseudo (p : pseudo) : bool :=
  match p with
  | Pseudo _ _ (ArgSel l) => negb (is_nil l) && forallb plain_sel l
  | Pseudo _ _ _ => true
  end.
Definition plain_sels (l : sels) : bool := forallb plain_sel l.

(* a compound all of whose simple selectors are left out (`:not(%p)` alone) *)
Fixpoint vanish_sel (s : sel) : bool :=
  match s with
  | Sel rel c => vanish_comp c || match rel with Some (_, r) => vanish_sel r | None => false end
  end
with vanish_comp (c : compound) : bool :=
  match c with
  | Comp b ps =>
      (negb (comp_is_empty c) && comp_is_empty (Comp b (flat_map strip_pseudo ps)))
      || existsb vanish_pseudo ps
  end
with vanish_pseudo (p : pseudo) : bool :=
  match p with
  | Pseudo _ _ (ArgSel l) => existsb vanish_sel l
  | Pseudo _ _ _ => false
  end.
Definition vanish_sels (l : sels) : bool := existsb vanish_sel l.
