(* Reference semantics of the sass:list functions, written from the Sass
   documentation (sass-lang.com/documentation/modules/list and values/lists):
   every value is a list (a map is the comma list of its key/value pairs, an
   argument list is a comma list, any other value is a list of one element with
   no separator of its own); indices are 1-based, negative ones count from the end. *)
From Coq Require Import String List NArith ZArith Bool.
From RV Require Import Base.Text Base.ListX Model.CssStr Model.ValueLite.
Import ListNotations.
Local Open Scope list_scope.
Local Open Scope Z_scope.

Record slist := mkL { l_items : list value; l_sep : option sep; l_bra : bool }.

Definition as_list (v : value) : slist :=
  match v with
  | VList l s b => mkL l s b
  | VMap [] => mkL [] None false
  | VMap m => mkL (map (fun kv => VList [fst kv; snd kv] (Some SSpace) false) m) (Some SComma) false
  | VArgs p => mkL p (Some SComma) false
  | x => mkL [x] None false
  end.

(* the 0-based position addressed by the Sass index n in a list of len elements *)
Definition sp_pos (n : Z) (len : nat) : option nat :=
  let l := Z.of_nat len in
  if (1 <=? n) && (n <=? l) then Some (Z.to_nat (n - 1))
  else if (- l <=? n) && (n <=? -1) then Some (Z.to_nat (l + n))
  else None.

Definition sp_nth (v : value) (n : Z) : option value :=
  let L := as_list v in
  match sp_pos n (length (l_items L)) with
  | Some i => nth_error (l_items L) i
  | None => None
  end.

Definition sp_set_nth (v : value) (n : Z) (x : value) : option value :=
  let L := as_list v in
  match sp_pos n (length (l_items L)) with
  | Some i => Some (VList (firstn i (l_items L) ++ x :: skipn (S i) (l_items L)) (l_sep L) (l_bra L))
  | None => None
  end.

Definition sp_sep_arg (v : value) : option (option sep) :=
  match v with
  | VStr s =>
      if cps_eqb (s_val s) (bytes_of_string "comma") then Some (Some SComma)
      else if cps_eqb (s_val s) (bytes_of_string "space") then Some (Some SSpace)
      else if cps_eqb (s_val s) (bytes_of_string "slash") then Some (Some SSlash)
      else if cps_eqb (s_val s) (bytes_of_string "auto") then Some None
      else None
  | _ => None
  end.

Definition first_some (l : list (option sep)) : sep :=
  match find (fun o => match o with Some _ => true | None => false end) l with
  | Some (Some s) => s
  | _ => SSpace
  end.

(* append: separator = explicit, else the list's own, else space; brackets kept *)
Definition sp_append (v x sepv : value) : option value :=
  let L := as_list v in
  match sp_sep_arg sepv with
  | Some e => Some (VList (l_items L ++ [x]) (Some (first_some [e; l_sep L])) (l_bra L))
  | None => None
  end.

Definition truthy (v : value) : bool := match v with VNull | VBool false => false | _ => true end.

(* join: separator = explicit, else first list having one, else space; brackets = explicit, else list1's *)
Definition sp_join (v1 v2 sepv brav : value) : option value :=
  let L1 := as_list v1 in
  let L2 := as_list v2 in
  match sp_sep_arg sepv with
  | Some e =>
      let bra := match brav with
                 | VStr s => if cps_eqb (s_val s) (bytes_of_string "auto") then l_bra L1 else true
                 | b => truthy b
                 end in
      Some (VList (l_items L1 ++ l_items L2) (Some (first_some [e; l_sep L1; l_sep L2])) bra)
  | None => None
  end.

(* index: 1-based position of the first element == x, or null *)
Fixpoint first_pos (l : list value) (x : value) : option nat :=
  match l with
  | [] => None
  | y :: r => if veq y x then Some O else option_map S (first_pos r x)
  end.
Definition sp_index (v x : value) : value :=
  match first_pos (l_items (as_list v)) x with
  | Some i => v_int (Z.of_nat i + 1)
  | None => VNull
  end.

Definition sp_length (v : value) : value := v_int (Z.of_nat (length (l_items (as_list v)))).

Definition sp_separator (v : value) : value :=
  v_unq (bytes_of_string match l_sep (as_list v) with
                         | Some SComma => "comma" | Some SSlash => "slash" | _ => "space" end%string).

Definition sp_is_bracketed (v : value) : value := VBool (l_bra (as_list v)).

(* zip: as many rows as the shortest list has elements; row i holds the i-th element of every list *)
Definition sp_zip (vs : list value) : value :=
  let ls := map (fun v => l_items (as_list v)) vs in
  let n := match ls with [] => O | l :: r => fold_right Nat.min (length l) (map (@length value) r) end in
  VList (map (fun i => VList (map (fun l => nth i l VNull) ls) (Some SSpace) false) (seq 0 n))
        (Some SComma) false.

(* ==: two lists are equal when they have == elements in the same order, the same separator
   (an undecided separator is its own kind) and the same brackets; other values by their own == *)
Definition sp_same_sep (a b : option sep) : bool :=
  match a, b with
  | None, None => true
  | Some x, Some y => N.eqb (sep_rank x) (sep_rank y)
  | _, _ => false
  end.
Fixpoint all2 (f : value -> value -> bool) (a b : list value) : bool :=
  match a, b with
  | [], [] => true
  | x :: a', y :: b' => f x y && all2 f a' b'
  | _, _ => false
  end.
Definition sp_equal (a b : value) : bool :=
  match a, b with
  | VList xs s1 k1, VList ys s2 k2 => all2 veq xs ys && sp_same_sep s1 s2 && Bool.eqb k1 k2
  | _, _ => veq a b
  end.
