(* Reference semantics for C11, written from CSS Values and Units (not from
   rsass): the groups of mutually convertible units and their exact ratios.
   Keys are the CSS unit names as they are written in style sheets. *)
From Coq Require Import String List ZArith QArith Qabs Bool.
Import ListNotations.
Local Open Scope string_scope.

(* group name, and how many canonical units one of this unit is *)
Definition css_pi : Q := 884279719003555 # 281474976710656.   (* the f64 nearest to pi, exactly *)

Definition css_units : list (string * (string * Q)) :=
  [ (* absolute lengths, canonical px *)
    ("px", ("length", 1)); ("in", ("length", 96)); ("pt", ("length", 96 # 72));
    ("pc", ("length", 16)); ("cm", ("length", 9600 # 254)); ("mm", ("length", 960 # 254));
    ("Q", ("length", 960 # 1016));
    (* angles, canonical deg *)
    ("deg", ("angle", 1)); ("grad", ("angle", 9 # 10)); ("turn", ("angle", 360));
    ("rad", ("angle", 180 / css_pi));
    (* times, canonical s *)
    ("s", ("time", 1)); ("ms", ("time", 1 # 1000));
    (* frequencies, canonical Hz *)
    ("Hz", ("frequency", 1)); ("kHz", ("frequency", 1000));
    (* resolutions, canonical dppx *)
    ("dppx", ("resolution", 1)); ("dpi", ("resolution", 1 # 96)); ("dpcm", ("resolution", 254 # 9600)) ].

(* known units for which CSS fixes no ratio to anything else *)
Definition css_lone_units : list string :=
  ["em"; "ex"; "ch"; "rem"; "vw"; "vh"; "vmin"; "vmax"; "%"; "fr"].

Fixpoint sassoc {A} (k : string) (l : list (string * A)) : option A :=
  match l with
  | [] => None
  | (k', v) :: r => if String.eqb k k' then Some v else sassoc k r
  end.

(* group and ratio of any unit name: lone and unknown units are their own group *)
Definition group_of (u : string) : string * Q :=
  match sassoc u css_units with
  | Some gr => gr
  | None => ("unit:" ++ u, 1)
  end.

Definition is_known_unit (u : string) : bool :=
  match sassoc u css_units with
  | Some _ => true
  | None => existsb (String.eqb u) css_lone_units
  end.

Definition same_group (u v : string) : bool :=
  String.eqb (fst (group_of u)) (fst (group_of v)).

(* a physical quantity: magnitude in canonical units and exponent per group *)
Definition dimvec := list (string * Z).

Fixpoint dv_add (d : dimvec) (g : string) (p : Z) : dimvec :=
  match d with
  | [] => [(g, p)]
  | (h, q) :: r => if String.eqb g h then (h, (q + p)%Z) :: r else (h, q) :: dv_add r g p
  end.
Definition dv_norm (d : dimvec) : dimvec := filter (fun x => negb (snd x =? 0)%Z) d.
Fixpoint dv_sub (a b : dimvec) : bool :=
  match a with
  | [] => true
  | (g, p) :: r => existsb (fun y => String.eqb g (fst y) && (p =? snd y)%Z) b && dv_sub r b
  end.
Definition dv_eqb (a b : dimvec) : bool :=
  let a := dv_norm a in let b := dv_norm b in dv_sub a b && dv_sub b a.

Definition Qpowz (q : Q) (p : Z) : Q := Qpower q p.

(* units: list of (name, power); "" is no unit *)
Definition quantity (mag : Q) (units : list (string * Z)) : Q * dimvec :=
  fold_left (fun (acc : Q * dimvec) (up : string * Z) =>
    let (u, p) := up in
    if String.eqb u "" then acc else
    let (g, r) := group_of u in
    (fst acc * Qpowz r p, dv_add (snd acc) g p)) units (mag, []).

Definition Qabs' (q : Q) : Q := Qabs q.
Definition Qmax' (a b : Q) : Q := if Qle_bool a b then b else a.

(* |a - b| <= tol * max(|a|,|b|) *)
Definition q_close (tol a b : Q) : bool :=
  Qle_bool (Qabs (a - b)) (tol * Qmax' (Qabs a) (Qabs b)).

Definition tol_rel : Q := 1 # 1000000000000.      (* 1e-12 *)
