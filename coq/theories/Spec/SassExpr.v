(* Reference semantics of Sass operator expressions, written from the Sass
   language reference (operators, precedence table) - not from rsass.

   Precedence, tightest first: unary `-` `not`; `* %`; `+ -`; `< <= > >=`;
   `== !=`; `and`; `or`.  Every binary level is left-associative.  A tree IS the
   grouping: [teval] evaluates a node from the values of its children.  The
   printer emits the canonical text of a tree with the fewest parentheses that
   keep that grouping under the table above. *)
From Coq Require Import List NArith ZArith Bool.
From RV Require Import Base.F64 Base.FMod Base.Text.
Import ListNotations.
Local Open Scope nat_scope.

Inductive binop : Type :=
| BOr | BAnd | BEq | BNe | BLt | BLe | BGt | BGe | BPlus | BMinus | BMul | BMod.

Inductive tree : Type :=
| TNum (n : N)
| TBool (b : bool)
| TNeg (t : tree)
| TNot (t : tree)
| TBin (o : binop) (l r : tree).

(* precedence levels of the Sass reference; larger binds tighter *)
Definition prec (o : binop) : nat :=
  match o with
  | BOr => 1 | BAnd => 2 | BEq | BNe => 3 | BLt | BLe | BGt | BGe => 4
  | BPlus | BMinus => 5 | BMul | BMod => 6
  end.
Definition tprec (t : tree) : nat :=
  match t with TBin o _ _ => prec o | _ => 7 end.

(* ---- values ---- *)
Inductive val : Type :=
| VNum (f : f64)
| VBool (b : bool)
| VErr            (* Sass reports an error *)
| VOther          (* a string (e.g. `true + 1` is `true1`): outside this property *)
| VUnmod.         (* used by models only: outside the model *)

Definition truthy (v : val) : bool := match v with VBool false => false | _ => true end.

(* Sass number equality: equal doubles, or within the 1e-11 tolerance *)
Definition sass_eps : f64 := of_bits 4442235333156365461.    (* 1e-11 *)
Definition sass_num_eq (a b : f64) : bool := feq a b || flt (fabs (fsub a b)) sass_eps.

(* Sass modulo: the result takes the sign of the divisor (floored division);
   dart-sass `moduloLikeSass` *)
Definition dart_mod (a b : f64) : f64 :=
  let r := ffmod a b in if flt r f_zero then fadd r (fabs b) else r.
Definition sass_mod (a b : f64) : f64 :=
  if f_is_inf a then f_nan
  else if f_is_inf b then
    (if f_is_nan a then f_nan else if Bool.eqb (f_sign_neg a) (f_sign_neg b) then a else f_nan)
  else if fgt b f_zero then dart_mod a b
  else if feq b f_zero then f_nan
  else let r := dart_mod a b in if feq r f_zero then f_zero else fadd r b.

(* strictness: an error in an evaluated operand is the result; a string operand
   puts the expression outside this property *)
Definition strict2 (a b : val) (k : val) : val :=
  match a with
  | VErr => VErr
  | VUnmod => VUnmod
  | VOther => VOther
  | _ => match b with
         | VErr => VErr
         | VUnmod => VUnmod
         | VOther => VOther
         | _ => k
         end
  end.

Definition spec_bin (o : binop) (a b : val) : val :=
  strict2 a b
    match o, a, b with
    | BEq, VNum x, VNum y => VBool (sass_num_eq x y)
    | BEq, VBool x, VBool y => VBool (Bool.eqb x y)
    | BEq, _, _ => VBool false
    | BNe, VNum x, VNum y => VBool (negb (sass_num_eq x y))
    | BNe, VBool x, VBool y => VBool (negb (Bool.eqb x y))
    | BNe, _, _ => VBool true
    | BLt, VNum x, VNum y => VBool (flt x y && negb (sass_num_eq x y))
    | BLe, VNum x, VNum y => VBool (flt x y || sass_num_eq x y)
    | BGt, VNum x, VNum y => VBool (fgt x y && negb (sass_num_eq x y))
    | BGe, VNum x, VNum y => VBool (fgt x y || sass_num_eq x y)
    | (BLt | BLe | BGt | BGe), _, _ => VErr          (* Undefined operation *)
    | BPlus, VNum x, VNum y => VNum (fadd x y)
    | BMinus, VNum x, VNum y => VNum (fsub x y)
    | (BPlus | BMinus), _, _ => VOther               (* string concatenation *)
    | BMul, VNum x, VNum y => VNum (fmul x y)
    | BMod, VNum x, VNum y => VNum (sass_mod x y)
    | (BMul | BMod), _, _ => VErr
    | (BOr | BAnd), _, _ => VUnmod                   (* handled by teval *)
    end.

Definition spec_neg (a : val) : val :=
  match a with VNum x => VNum (fneg x) | VBool _ => VOther | v => v end.
Definition spec_not (a : val) : val :=
  match a with VNum _ => VBool false | VBool b => VBool (negb b) | v => v end.

(* evaluation of a tree, generic in the per-node operator semantics; `and` and
   `or` evaluate the right operand only when needed and return an operand *)
Section Eval.
  Variable bin : binop -> val -> val -> val.
  Variable neg not_ : val -> val.
  Variable absorb : val -> bool.     (* left operands of and/or that end the evaluation *)
  Fixpoint teval (t : tree) : val :=
    match t with
    | TNum n => VNum (f_of_N n)
    | TBool b => VBool b
    | TNeg t' => neg (teval t')
    | TNot t' => not_ (teval t')
    | TBin BAnd l r => let a := teval l in if absorb a then a else if truthy a then teval r else a
    | TBin BOr l r => let a := teval l in if absorb a then a else if truthy a then a else teval r
    | TBin o l r => bin o (teval l) (teval r)
    end.
End Eval.

Definition stuck (v : val) : bool := match v with VErr | VUnmod => true | _ => false end.
(* in the reference a string value puts the whole expression outside the property *)
Definition no_claim (v : val) : bool := match v with VBool _ | VNum _ => false | _ => true end.
Definition eval_spec : tree -> val := teval spec_bin spec_neg spec_not no_claim.

(* ---- canonical text ---- *)
Inductive tok : Type :=
| KNum (neg : bool) (n : N)     (* a number literal, `-` sign attached *)
| KTrue | KFalse | KLP | KRP
| KOp (o : binop)               (* binary operator, one space on each side *)
| KNeg                          (* unary minus, attached to what follows *)
| KNot.                         (* `not` followed by one space *)

Definition parens (ts : list tok) : list tok := KLP :: ts ++ [KRP].

Fixpoint pr (t : tree) : list tok :=
  match t with
  | TNum n => [KNum false n]
  | TBool true => [KTrue]
  | TBool false => [KFalse]
  | TNeg (TNum n) => [KNum true n]
  | TNeg t' => KNeg :: parens (pr t')
  | TNot t' => KNot :: (if tprec t' <? 7 then parens (pr t') else pr t')
  | TBin o l r =>
      (if tprec l <? prec o then parens (pr l) else pr l)
      ++ KOp o ::
      (if tprec r <? S (prec o) then parens (pr r) else pr r)
  end.

Definition op_text (o : binop) : list N :=
  match o with
  | BOr => [111;114] | BAnd => [97;110;100] | BEq => [61;61] | BNe => [33;61]
  | BLt => [60] | BLe => [60;61] | BGt => [62] | BGe => [62;61]
  | BPlus => [43] | BMinus => [45] | BMul => [42] | BMod => [37]
  end%N.

Definition tok_text (k : tok) : list N :=
  match k with
  | KNum s n => (if s then [45] else []) ++ dec_of_N n
  | KTrue => [116;114;117;101]
  | KFalse => [102;97;108;115;101]
  | KLP => [40] | KRP => [41]
  | KOp o => 32 :: op_text o ++ [32]
  | KNeg => [45]
  | KNot => [110;111;116;32]
  end%N.

Definition render (ts : list tok) : list N := flat_map tok_text ts.
Definition tree_text (t : tree) : list N := render (pr t).

(* how an implementation's answer compares with the reference value *)
Definition agrees (spec impl : val) : bool :=
  match spec, impl with
  | VNum a, VNum b => f_same a b
  | VBool a, VBool b => Bool.eqb a b
  | VErr, (VErr | VOther) => true
  | VOther, _ => true
  | _, _ => false
  end.
