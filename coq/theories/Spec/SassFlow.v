(* Reference semantics of the Sass control-flow directives, written from the
   property text / the Sass language reference (not from rsass):
   @if chains, @for ranges, @each with destructuring, @while. *)
From Coq Require Import String List ZArith QArith Qabs Qround Bool.
From RV Require Import Model.EvValue Spec.CssUnits.
Import ListNotations.
Local Open Scope Z_scope.

(* Sass truthiness: only `false` and `null` are falsey *)
Definition truthy (v : value) : bool :=
  match v with VNull => false | VFalse => false | _ => true end.

(* ---- @if c1 {0} @else if c2 {1} ... [@else {n}] : the first truthy branch ---- *)
Fixpoint first_truthy (branches : list (value * nat)) (els : option nat) : option nat :=
  match branches with
  | [] => els
  | (c, b) :: r => if truthy c then Some b else first_truthy r els
  end.

(* ---- @for: the integer interval, ascending or descending ---- *)
Definition incl_extra (inclusive : bool) : Z := if inclusive then 1 else 0.
Definition spec_range (a b : Z) (inclusive : bool) : list Z :=
  if a <=? b then
    map (fun k => a + Z.of_nat k) (seq 0 (Z.to_nat (b - a + incl_extra inclusive)))
  else
    map (fun k => a - Z.of_nat k) (seq 0 (Z.to_nat (a - b + incl_extra inclusive))).

(* bounds with units, as exact rationals.  `$i` has a's unit; a compatible unit
   on b is converted with the CSS ratio; a unitless bound adopts the other's unit *)
Local Open Scope Q_scope.
Definition q_round (q : Q) : Z := Qfloor (q + (1 # 2)).
Definition int_tol : Q := 1 # 1000000000.            (* "is an integer": within 1e-9 *)
Definition int_far : Q := 1 # 1000.                  (* clearly not an integer: further than 1e-3 *)
Inductive intness : Type := IsInt (z : Z) | NotInt | Grey (z : Z).
Definition intness_of (q : Q) : intness :=
  let z := q_round q in
  let d := Qabs (q - inject_Z z) in
  if Qle_bool d int_tol then IsInt z
  else if Qle_bool d int_far then Grey z
  else NotInt.

Inductive for_spec : Type :=
| ForItems (l : list Z) (unit : string)
| ForError
| ForEither (l : list Z) (unit : string).   (* a bound in the grey zone: items or an error *)

Definition unitless (u : string) : bool := String.eqb u "".

Definition convert_bound (b : Q) (ub ua : string) : option Q :=
  if unitless ua || unitless ub || String.eqb ua ub then Some b
  else if same_group ub ua then Some (b * snd (group_of ub) / snd (group_of ua))
  else None.

Definition spec_for (a : Q) (ua : string) (b : Q) (ub : string) (inclusive : bool) : for_spec :=
  match convert_bound b ub ua with
  | None => ForError
  | Some b' =>
      match intness_of a, intness_of b' with
      | NotInt, _ | _, NotInt => ForError
      | IsInt x, IsInt y => ForItems (spec_range x y inclusive) ua
      | IsInt x, Grey y | Grey x, IsInt y | Grey x, Grey y => ForEither (spec_range x y inclusive) ua
      end
  end.
Local Open Scope Z_scope.

(* ---- @each: elements of a list, entries of a map as (key value) pairs, any
   other value is a one-element list; several variables destructure an element,
   missing positions are null ---- *)
Definition elements (v : value) : list value :=
  match v with
  | VList l _ _ => l
  | VMap m => map (fun kv => VList [fst kv; snd kv] (Some SpSpace) false) m
  | other => [other]
  end.

Definition destructure (names : list string) (item : value) : list (string * value) :=
  match names with
  | [n] => [(n, item)]
  | _ => map (fun kn => (snd kn, nth (fst kn) (elements item) VNull))
             (combine (seq 0 (length names)) names)
  end.

Definition spec_each (names : list string) (v : value) : list (list (string * value)) :=
  map (destructure names) (elements v).

(* ---- @while: the body runs in the states s, body s, body (body s), ... up to,
   not including, the first state whose condition is falsey ---- *)
Section While.
  Context {S : Type}.
  Variable cond : S -> value.
  Variable body : S -> S.
  Fixpoint iter_n (n : nat) (s : S) : S :=
    match n with O => s | Datatypes.S k => iter_n k (body s) end.
  (* the first n < bound with a falsey condition after n rounds *)
  Definition first_stop (bound : nat) (s : S) : option nat :=
    find (fun n => negb (truthy (cond (iter_n n s)))) (seq 0 bound).
  Definition spec_while (bound : nat) (s : S) : option (list S * S) :=
    match first_stop bound s with
    | Some n => Some (map (fun k => iter_n k s) (seq 0 n), iter_n n s)
    | None => None
    end.
End While.
