(* Reference semantics of load-URL resolution, written from the text of property C04
   (and the Sass documentation of @use / @import it paraphrases), NOT from rsass.

   "@use/@forward of a URL resolves to the first existing file among u.scss, _u.scss,
    u/index.scss, u/_index.scss, u.css, _u.css, and @import first tries the matching
    .import.scss variant before each .scss candidate.  The URL is tried relative to the
    importing file first and then unchanged in each load path in order.  When nothing is
    found the load fails, except that @import of a .css, http(s)://, // or url() target is
    emitted as a plain CSS import."

   The text orders the six plain candidates totally, puts every .import.scss variant
   before its own .scss candidate (hence, by transitivity, before everything after it),
   and orders the places (importer's directory, then the load paths).  It does not say
   how the two orders combine, nor how two .import.scss variants compare: the weakest
   reading is the product order, and a result is ALLOWED when it exists and nothing that
   the text definitely orders before it exists. *)
From Coq Require Import String List Bool Arith Ascii.
Import ListNotations.
Local Open Scope string_scope.

Inductive shape : Type := ShPlain | ShPartial | ShIndex | ShPartialIndex.
Inductive ext : Type := XScss | XImportScss | XCss.
Definition scand : Type := (shape * ext)%type.

Definition shape_eqb (a b : shape) : bool :=
  match a, b with
  | ShPlain, ShPlain | ShPartial, ShPartial | ShIndex, ShIndex | ShPartialIndex, ShPartialIndex => true
  | _, _ => false
  end.
Definition ext_eqb (a b : ext) : bool :=
  match a, b with XScss, XScss | XImportScss, XImportScss | XCss, XCss => true | _, _ => false end.
Definition scand_eqb (a b : scand) : bool := shape_eqb (fst a) (fst b) && ext_eqb (snd a) (snd b).

(* the six documented candidates, in the documented order *)
Definition six : list scand :=
  [(ShPlain, XScss); (ShPartial, XScss); (ShIndex, XScss); (ShPartialIndex, XScss);
   (ShPlain, XCss); (ShPartial, XCss)].

(* the import-only variant of each .scss candidate *)
Definition import_variants : list scand :=
  [(ShPlain, XImportScss); (ShPartial, XImportScss); (ShIndex, XImportScss); (ShPartialIndex, XImportScss)].

Definition spec_cands (import : bool) : list scand :=
  if import then import_variants ++ six else six.

Definition ext_text (e : ext) : string :=
  match e with XScss => ".scss" | XImportScss => ".import.scss" | XCss => ".css" end.

(* file name of a candidate for the url split as directory part b and last part n *)
Definition spec_name (b n : string) (c : scand) : string :=
  match fst c with
  | ShPlain => b ++ n ++ ext_text (snd c)
  | ShPartial => b ++ "_" ++ n ++ ext_text (snd c)
  | ShIndex => b ++ n ++ "/index" ++ ext_text (snd c)
  | ShPartialIndex => b ++ n ++ "/_index" ++ ext_text (snd c)
  end.

Fixpoint index_of (c : scand) (l : list scand) : option nat :=
  match l with
  | [] => None
  | x :: r => if scand_eqb c x then Some 0 else option_map S (index_of c r)
  end.

(* what the text definitely tries before what *)
Definition doc_before (a b : scand) : bool :=
  match snd a, snd b with
  | XImportScss, XImportScss => false
  | XImportScss, _ =>
      match index_of (fst a, XScss) six, index_of b six with
      | Some i, Some j => Nat.leb i j
      | _, _ => false
      end
  | _, XImportScss => false
  | _, _ =>
      match index_of a six, index_of b six with
      | Some i, Some j => Nat.ltb i j
      | _, _ => false
      end
  end.

(* ---- which file a load denotes ---- *)

Section Resolve.
Variable isfile : string -> option string.      (* the file system: path -> file it denotes *)

(* a target: (index of the place, candidate, file) *)
Definition target : Type := (nat * scand * string)%type.

Fixpoint places_from (i : nat) (locs : list string) (name_of : string -> list (scand * string)) : list (nat * scand * string) :=
  match locs with
  | [] => []
  | l :: r => map (fun cn => (i, fst cn, snd cn)) (name_of l) ++ places_from (S i) r name_of
  end.

(* existing targets: places `locs` are directory prefixes ("" or ending in "/"), in documented
   order; `cn` are the candidates with their names relative to a place *)
Definition existing_gen (locs : list string) (cn : list (scand * string)) : list target :=
  flat_map (fun t => match isfile (snd t) with Some f => [(fst t, f)] | None => [] end)
    (places_from 0 locs (fun l => map (fun c => (fst c, l ++ snd c)) cn)).

Definition cand_names (import : bool) (b n : string) : list (scand * string) :=
  map (fun c => (c, spec_name b n c)) (spec_cands import).

Definition definitely_before (t' t : target) : bool :=
  let '(i', c', _) := t' in let '(i, c, _) := t in
  Nat.leb i' i && (scand_eqb c' c || doc_before c' c) && negb (Nat.eqb i' i && scand_eqb c' c).

Definition allowed_targets (ts : list target) : list target :=
  filter (fun t => negb (existsb (fun t' => definitely_before t' t) ts)) ts.

(* the files the text allows a load to resolve to; [] = the load must fail *)
Definition allowed_gen (locs : list string) (cn : list (scand * string)) : list string :=
  map (fun t => snd t) (allowed_targets (existing_gen locs cn)).

Definition allowed (import : bool) (locs : list string) (b n : string) : list string :=
  allowed_gen locs (cand_names import b n).

End Resolve.

(* the four forms of @import target that are emitted as plain css when no file is found *)
Fixpoint ends_with_s (s suf : string) : bool :=
  if String.eqb s suf then true
  else match s with EmptyString => false | String _ r => ends_with_s r suf end.

Definition spec_plain_import (x : string) (unquoted_url : bool) : bool :=
  ends_with_s x ".css" || String.prefix "http://" x || String.prefix "https://" x || String.prefix "//" x
  || (unquoted_url && String.prefix "url(" x && ends_with_s x ")").
