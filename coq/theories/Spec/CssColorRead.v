(* Spec/CssColorRead.v - reference reading of CSS colour text (CSS Color Module Level 4: hex notations,
   named colours, rgb()/rgba(), hsl()/hsla(), `transparent`), written from the
   specification.  The result is the sRGB colour as exact rationals: red, green,
   blue on the 0..255 scale and alpha in 0..1. *)
From Coq Require Import String List NArith ZArith QArith Qabs Qround Bool Ascii.
From RV Require Import Base.Text Spec.CalcSem Spec.CssColorTable.
Import ListNotations.
Local Open Scope Z_scope.

Record srgb := mkSrgb { s_r : Q; s_g : Q; s_b : Q; s_a : Q }.

Definition hexval (c : N) : option Z :=
  if ((48 <=? c) && (c <=? 57))%N then Some (Z.of_N c - 48)
  else if ((97 <=? c) && (c <=? 102))%N then Some (Z.of_N c - 87)
  else if ((65 <=? c) && (c <=? 70))%N then Some (Z.of_N c - 55)
  else None.
Definition hex2 (a b : N) : option Z :=
  match hexval a, hexval b with Some x, Some y => Some (x * 16 + y) | _, _ => None end.
Definition hex1 (a : N) : option Z := option_map (fun x => x * 17) (hexval a).

Definition of_bytes (r g b : Z) : srgb := mkSrgb (inject_Z r) (inject_Z g) (inject_Z b) 1.

Definition decode_hex (ds : list N) : option srgb :=
  match ds with
  | [a; b; c] =>
      match hex1 a, hex1 b, hex1 c with Some r, Some g, Some b => Some (of_bytes r g b) | _, _, _ => None end
  | [a; a'; b; b'; c; c'] =>
      match hex2 a a', hex2 b b', hex2 c c' with Some r, Some g, Some b => Some (of_bytes r g b) | _, _, _ => None end
  | _ => None
  end.

Fixpoint name_lookup (n : string) (l : list (string * (Z * Z * Z))) : option srgb :=
  match l with
  | [] => None
  | (n', (r, g, b)) :: rest => if String.eqb n n' then Some (of_bytes r g b) else name_lookup n rest
  end.

(* numbers separated by commas (optional spaces), up to the closing parenthesis *)
Fixpoint skip_spaces (s : list N) : list N :=
  match s with 32%N :: r => skip_spaces r | _ => s end.
Fixpoint args (fuel : nat) (s : list N) : option (list (Q * string)) :=
  match fuel with
  | O => None
  | S f =>
      match lex_number (skip_spaces s) with
      | Some (q, u, rest) =>
          match skip_spaces rest with
          | 44%N :: r => option_map (cons (q, u)) (args f r)
          | [41%N] => Some [(q, u)]
          | _ => None
          end
      | None => None
      end
  end.

Local Open Scope Q_scope.
Local Open Scope string_scope.
Definition qclamp (x lo hi : Q) : Q := if Qle_bool x lo then lo else if Qle_bool hi x then hi else x.
Definition qmin (a b : Q) : Q := if Qle_bool a b then a else b.
Definition qmax (a b : Q) : Q := if Qle_bool a b then b else a.
(* x mod m for positive m *)
Definition qmod (x m : Q) : Q := x - m * inject_Z (Qfloor (x / m)).

(* CSS Color 4, 7.1 "Converting HSL colors to sRGB"; the result is clipped to the sRGB gamut *)
Definition hsl_to_srgb (h s l a : Q) : srgb :=
  let h := qmod h 360 in
  let s := qmax 0 s in
  let t := s * qmin l (1 - l) in
  let f (n : Q) : Q :=
    let k := qmod (n + h / 30) 12 in
    l - t * qmax (-1) (qmin (qmin (k - 3) (9 - k)) 1) in
  mkSrgb (qclamp (f 0 * 255) 0 255) (qclamp (f 8 * 255) 0 255) (qclamp (f 4 * 255) 0 255) (qclamp a 0 1).

Definition chan (x : Q * string) : Q :=
  if String.eqb (snd x) "%" then fst x * 255 / 100 else fst x.
Definition pct (x : Q * string) : Q := fst x / 100.
Definition alpha_of (x : Q * string) : Q := if String.eqb (snd x) "%" then fst x / 100 else fst x.

Definition starts (p s : list N) : option (list N) :=
  (fix go (p s : list N) : option (list N) :=
     match p, s with
     | [], _ => Some s
     | a :: p', b :: s' => if (a =? b)%N then go p' s' else None
     | _, [] => None
     end) p s.

Definition lower (s : list N) : list N := map to_ascii_lower s.

Definition decode_color (text : list N) : option srgb :=
  match text with
  | 35%N :: ds => decode_hex ds
  | _ =>
      let t := lower text in
      if bytes_eqb t (bytes_of_string "transparent") then Some (mkSrgb 0 0 0 0) else
      let fn (p : string) := starts (bytes_of_string p) t in
      match fn "rgba(", fn "rgb(", fn "hsla(", fn "hsl(" with
      | Some r, _, _, _ | None, Some r, _, _ =>
          match args 8%nat r with
          | Some [x; y; z] => Some (mkSrgb (qclamp (chan x) 0 255) (qclamp (chan y) 0 255) (qclamp (chan z) 0 255) 1)
          | Some [x; y; z; a] =>
              Some (mkSrgb (qclamp (chan x) 0 255) (qclamp (chan y) 0 255) (qclamp (chan z) 0 255) (qclamp (alpha_of a) 0 1))
          | _ => None
          end
      | None, None, Some r, _ | None, None, None, Some r =>
          match args 8%nat r with
          | Some [h; s; l] => Some (hsl_to_srgb (fst h) (pct s) (pct l) 1)
          | Some [h; s; l; a] => Some (hsl_to_srgb (fst h) (pct s) (pct l) (alpha_of a))
          | _ => None
          end
      | None, None, None, None => name_lookup (string_of_bytes t) css_named_colors
      end
  end.

Definition srgb_close (tol : Q) (x y : srgb) : bool :=
  Qle_bool (Qabs (s_r x - s_r y)) tol && Qle_bool (Qabs (s_g x - s_g y)) tol
  && Qle_bool (Qabs (s_b x - s_b y)) tol && Qle_bool (Qabs (s_a x - s_a y)) tol.
