(* Reference for C29 (exactly specified math functions), on rationals,
   written from the Sass documentation of sass:math. *)
From Coq Require Import ZArith QArith Qabs Qround List Bool.
Import ListNotations.
Local Open Scope Q_scope.

Definition ref_abs (x : Q) : Q := Qabs x.
Definition ref_ceil (x : Q) : Q := inject_Z (Qceiling x).
Definition ref_floor (x : Q) : Q := inject_Z (Qfloor x).
(* nearest whole number, halves away from zero *)
Definition ref_round (x : Q) : Q :=
  if Qle_bool 0 x then inject_Z (Qfloor (x + (1 # 2))) else - inject_Z (Qfloor (- x + (1 # 2))).
Definition ref_percentage (x : Q) : Q := x * 100.

Definition Qmaxb (a b : Q) : Q := if Qle_bool a b then b else a.
Definition Qminb (a b : Q) : Q := if Qle_bool a b then a else b.
Definition ref_clamp (mn x mx : Q) : Q := Qmaxb mn (Qminb x mx).

(* v is x as printed with 10 decimals after a computation in binary64 *)
Definition printed_close (x v : Q) : bool :=
  Qle_bool (Qabs (v - x)) ((1 # 10000000000) + (1 # 1000000000000) * Qabs x).
