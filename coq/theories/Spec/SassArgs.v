(* Reference argument binding, written from the property text (and the Sass
   language reference), not from rsass:
   positional arguments by position, then named arguments by name (`-` and `_`
   equivalent), then defaults evaluated left to right in the callee scope, then
   extras into a rest parameter whose keywords meta.keywords reports.  Too many,
   unknown, duplicated or missing arguments are errors. *)
From Coq Require Import String Ascii List ZArith Bool.
From RV Require Import Model.EvValue Model.EvArgs.
Import ListNotations.
Local Open Scope string_scope.
Local Open Scope list_scope.

(* `-` and `_` are equivalent: names are compared after mapping `-` to `_` *)
Definition same_name (a b : string) : bool := String.eqb (norm a) (norm b).

(* all arguments of the call: positional ones (explicit, then the items of a list splat, then the
   positional part of a splatted argument list) and named ones (explicit, then the keywords of a
   splatted argument list, then the entries of a map splat) *)
Definition all_positional (c : callT) : list value :=
  c_pos c ++ match c_lsplat c with
             | None => []
             | Some (VList l _ _) => l
             | Some VNull => []
             | Some v => [v]
             end
        ++ match c_asplat c with Some (p, _) => p | None => [] end.
(* the named arguments that are written or forwarded explicitly *)
Definition checked_named (c : callT) : list (string * value) :=
  c_named c ++ match c_asplat c with Some (_, kw) => kw | None => [] end.
Definition all_named (c : callT) : list (string * value) :=
  checked_named c ++ match c_msplat c with None => [] | Some kvs => kvs end.

Fixpoint has_name (l : list (string * value)) (k : string) : bool :=
  match l with
  | [] => false
  | (k', _) :: r => same_name k k' || has_name r k
  end.
Fixpoint dup_names (l : list (string * value)) : bool :=
  match l with
  | [] => false
  | (k, _) :: r => has_name r k || dup_names r
  end.
Fixpoint get_name (l : list (string * value)) (k : string) : option value :=
  match l with
  | [] => None
  | (k', v) :: r => if same_name k k' then Some v else get_name r k
  end.

(* the value of parameter number i: its positional argument, else its named argument, else
   its default evaluated with the parameters to its left (then the definition scope) *)
Definition spec_default (bound : list (string * value)) (d : dexpr) : option value :=
  match d with
  | DLit v => Some v
  | DRef n => match get_name bound n with
              | Some v => Some v
              | None => get_name globals n
              end
  end.

Fixpoint spec_params (ps : list (string * option dexpr)) (i : nat) (P : list value) (N : list (string * value))
    (bound : list (string * value)) : option (list (string * value)) :=
  match ps with
  | [] => Some bound
  | (name, dflt) :: r =>
      let v :=
        match nth_error P i with
        | Some v => Some v
        | None =>
            match get_name N name with
            | Some v => Some v
            | None => match dflt with Some d => spec_default bound d | None => None end   (* missing *)
            end
        end in
      match v with
      | Some v => spec_params r (S i) P N (bound ++ [(norm name, v)])
      | None => None
      end
  end.

Definition is_param (ps : list (string * option dexpr)) (k : string) : bool :=
  existsb (fun p => same_name (fst p) k) ps.

Definition spec_bind (s : sigT) (c : callT) : bres :=
  let P := all_positional c in
  let N := all_named c in
  let n := length (s_params s) in
  (* duplicated: the same name twice *)
  if dup_names N then BErr
  (* too many: more arguments than parameters and no rest parameter *)
  else if (match s_rest s with None => true | Some _ => false end) && (n <? length P + length N)%nat then BErr
  (* duplicated: passed both by position and by name *)
  else if existsb (fun p => has_name N (fst p)) (firstn (length P) (s_params s)) then BErr
  else
    match spec_params (s_params s) 0 P N [] with
    | None => BErr
    | Some bound =>
        let extra_named :=
          map (fun kv => (norm (fst kv), snd kv)) (filter (fun kv => negb (is_param (s_params s) (fst kv))) N) in
        match s_rest s with
        | Some _ => BOk bound (Some (RArgs (skipn n P) extra_named))
        | None => match extra_named with [] => BOk bound None | _ => BErr end     (* unknown *)
        end
    end.

(* ---- a function returns the first @return it reaches ---- *)
(* the statements in execution order, with branches resolved by truthiness *)
Fixpoint flatten (s : fstmt) : list fstmt :=
  let go := fix go (l : list fstmt) : list fstmt :=
    match l with [] => [] | x :: r => flatten x ++ go r end in
  match s with
  | FIf c t e => match c with VFalse | VNull => go e | _ => go t end
  | other => [other]
  end.
Fixpoint flatten_body (l : list fstmt) : list fstmt :=
  match l with [] => [] | x :: r => flatten x ++ flatten_body r end.
Definition first_return (l : list fstmt) : option value :=
  match find (fun s => match s with FRet _ => true | _ => false end) (flatten_body l) with
  | Some (FRet v) => Some v
  | _ => None
  end.
