(* Reference semantics of Sass maps, written from the Sass documentation
   (sass-lang.com/documentation/values/maps and modules/map), not from rsass:
   a map associates keys (compared with ==) with values and remembers insertion
   order.  Formulated with find/filter/map over association lists. *)
From Coq Require Import List Bool.
Import ListNotations.
Local Open Scope list_scope.

Section MapSpec.
  Context {K V : Type}.
  Variable keq : K -> K -> bool.
  Variable veqv : V -> V -> bool.
  Definition smap := list (K * V).

  Definition same (a b : K) : bool := keq a b || keq b a.

  Definition sp_has (m : smap) (k : K) : bool := existsb (fun kv => same (fst kv) k) m.
  Definition sp_get (m : smap) (k : K) : option V :=
    option_map snd (find (fun kv => same (fst kv) k) m).
  (* map.remove: the map without any entry whose key == k *)
  Definition sp_remove (m : smap) (k : K) : smap := filter (fun kv => negb (same (fst kv) k)) m.
  (* map.set: the value of the entry with key == k becomes v (position and stored key kept);
     a new key goes last *)
  Definition sp_set (m : smap) (k : K) (v : V) : smap :=
    if sp_has m k then map (fun kv => if same (fst kv) k then (fst kv, v) else kv) m
    else m ++ [(k, v)].
  (* map.merge: m1's entries in m1's order with m2's values winning, then m2's new keys in m2's order *)
  Definition sp_merge (m1 m2 : smap) : smap :=
    map (fun kv => match sp_get m2 (fst kv) with Some v2 => (fst kv, v2) | None => kv end) m1
    ++ filter (fun kv => negb (sp_has m1 (fst kv))) m2.
  (* a literal is an error when two of its keys are == *)
  Fixpoint sp_has_dup (l : list (K * V)) : bool :=
    match l with
    | [] => false
    | kv :: r => sp_has r (fst kv) || sp_has_dup r
    end.
  (* map equality: same size, every entry of one has an == key with an == value in the other *)
  Definition sp_sub (a b : smap) : bool :=
    forallb (fun kv => existsb (fun kv' => same (fst kv) (fst kv') && veqv (snd kv) (snd kv')) b) a.
  Definition sp_eq (a b : smap) : bool :=
    Nat.eqb (length a) (length b) && sp_sub a b && sp_sub b a.
End MapSpec.
