(* Reference notions for C36 / C21 / C20, independent of rsass's destinations:
   which leaf statements a successful run of a program of the statement subset
   executes, in evaluation order (mixins and content blocks inlined, @if takes
   its branch, a loop repeats its body), and what can be read off an output
   text (its comments, the presence of a marker). *)
From Coq Require Import List NArith Bool Arith.
From RV Require Import Base.Text Spec.CssTok Model.Out Model.OutDest.
Import ListNotations.
Local Open Scope N_scope.

Inductive leafstmt :=
| LDecl (prefix : list bytes) (name value : bytes)    (* enclosing nested-property names, outermost first *)
| LComment (text : bytes)
| LAt (name : bytes) (args : option bytes)
| LError (msg : bytes).

Fixpoint repeat_app {A} (n : nat) (l : list A) : list A :=
  match n with O => [] | S k => l ++ repeat_app k l end.

Fixpoint reach (fuel : nat) (mixins : list (list stmt)) (cenv : list (option (list stmt)))
         (pre : list bytes) (s : stmt) : list leafstmt :=
  match fuel with
  | O => []
  | S n =>
    let body := fun cenv pre l => flat_map (reach n mixins cenv pre) l in
    match s with
    | SDecl name v => [LDecl pre name v]
    | SComment t => [LComment t]
    | SRule _ b => body cenv pre b
    | SNs name v b => (match v with Some v => [LDecl pre name v] | None => [] end) ++ body cenv (pre ++ [name]) b
    | SMedia _ b => body cenv pre b
    | SAtR name args (Some b) => body cenv pre b
    | SAtR name args None => [LAt name args]
    | SAtRoot _ b => body cenv pre b
    | SError m => [LError m]
    | SIf c t e => body cenv pre (if c then t else e)
    | SLoop k b => repeat_app k (body cenv pre b)
    | SEach _ bodies => flat_map (body cenv pre) bodies
    | SInclude m content =>
        match nth_error mixins m with Some mb => body (content :: cenv) pre mb | None => [] end
    | SContent => match cenv with Some c :: outer => body outer pre c | _ => [] end
    end
  end.

Definition reach_program (fuel : nat) (p : program) : list leafstmt :=
  flat_map (reach fuel (p_mixins p) [] []) (p_main p).

(* up to the first @error *)
Fixpoint before_error (l : list leafstmt) : list leafstmt * bool :=
  match l with
  | [] => ([], false)
  | LError _ :: _ => ([], true)
  | x :: r => let (a, e) := before_error r in (x :: a, e)
  end.

Definition comments_in (l : list leafstmt) : list bytes :=
  flat_map (fun x => match x with LComment t => [t] | _ => [] end) l.

(* ---- reading an output text ---- *)
Fixpoint contains (p x : bytes) : bool :=
  match x with
  | [] => match p with [] => true | _ => false end
  | _ :: r => starts_with p x || contains p r
  end.

Record cst := mkC { c_st : state; c_cur : option bytes; c_acc : list bytes }.
Definition cstep (a : cst) (c : N) : cst :=
  let st' := step (c_st a) c in
  match fst (c_st a), fst st' with
  | NSlash, Com => mkC st' (Some []) (c_acc a)
  | (Com | ComStar), N0 => mkC st' None (match c_cur a with Some r => rev (tl r) :: c_acc a | None => c_acc a end)
  | (Com | ComStar), _ => mkC st' (match c_cur a with Some r => Some (c :: r) | None => None end) (c_acc a)
  | _, _ => mkC st' (c_cur a) (c_acc a)
  end.
(* the comments of a CSS text, in order, without the delimiters *)
Definition comments_of (x : bytes) : list bytes :=
  rev (c_acc (fold_left cstep x (mkC (N0, []) None []))).

Definition squeeze (x : bytes) : bytes := filter (fun c => negb (is_blank c)) x.
Fixpoint texts_eqb (a b : list bytes) : bool :=
  match a, b with
  | [], [] => true
  | x :: a', y :: b' => bytes_eqb x y && texts_eqb a' b'
  | _, _ => false
  end.
Definition same_comments (a b : list bytes) : bool := texts_eqb (map squeeze a) (map squeeze b).

Definition is_bang (t : bytes) : bool := match t with 33 :: _ => true | _ => false end.

(* ---- what the implementation answered, and its comparison with the model ---- *)
Inductive iout := IOk (o : bytes) | IErr (kind : N) (msg : bytes) | ICrash.

Definition err_code (e : err) : N :=
  match e with
  | EAtRule => 1 | EDeclOutside => 2 | EInNs => 3 | EGlobalNs => 4 | EAtError _ => 5 | EUndefMixin => 6
  end.

(* 1 agree, 0 disagree, 2 outside the model *)
Definition corr_of (r : res (bytes * nat)) (i : iout) : N :=
  match r, i with
  | Outside, _ | OutOfFuel, _ => 2
  | Ok (o, _), IOk o' => if bytes_eqb o o' then 1 else 0
  | Err e, IErr k msg =>
      if k =? err_code e then
        match e with EAtError m => if contains m msg then 1 else 0 | _ => 1 end
      else 0
  | _, _ => 0
  end.

Definition FUEL : nat := 64.

(* ---- known-finding classes shared by C36 / C21 / C20: conditions on the PROGRAM only ---- *)

(* a block (at-rule with a body, or something that may expand to one) inside a
   nested-property block: F24 *)
Fixpoint blocky (s : stmt) : bool :=
  let any := fix any (l : list stmt) : bool := match l with [] => false | x :: r => blocky x || any r end in
  match s with
  | SMedia _ _ | SAtR _ _ (Some _) | SInclude _ _ | SContent => true
  | SNs _ _ b | SRule _ b | SAtRoot _ b | SLoop _ b => any b
  | SEach p bs => any p || (fix anyl (l : list (list stmt)) : bool := match l with [] => false | x :: r => any x || anyl r end) bs
  | SIf _ t e => any t || any e
  | _ => false
  end.
Fixpoint ns_block (s : stmt) : bool :=
  let any := fix any (l : list stmt) : bool := match l with [] => false | x :: r => ns_block x || any r end in
  match s with
  | SNs _ _ b => existsb blocky b || any b
  | SRule _ b | SMedia _ b | SAtR _ _ (Some b) | SAtRoot _ b | SLoop _ b => any b
  | SEach p bs => any p || (fix anyl (l : list (list stmt)) : bool := match l with [] => false | x :: r => any x || anyl r end) bs
  | SIf _ t e => any t || any e
  | SInclude _ (Some c) => any c
  | _ => false
  end.
Definition known_ns_block (p : program) : bool :=
  existsb ns_block (p_main p) || existsb (existsb ns_block) (p_mixins p)
  (* a nested-property block that includes a mixin may receive a block from it *)
  .

(* a @media / at-rule body that has a direct declaration or comment AFTER a nested
   block: the direct items are collected in a rule that is emitted first (F33) *)
Definition is_direct (s : stmt) : bool :=
  match s with SDecl _ _ | SComment _ | SNs _ _ _ | SIf _ _ _ | SLoop _ _ | SEach _ _ | SInclude _ _ | SContent | SAtRoot None _ => true | _ => false end.
Definition is_block (s : stmt) : bool :=
  match s with SRule _ _ | SMedia _ _ | SAtR _ _ _ | SAtRoot _ _ | SIf _ _ _ | SLoop _ _ | SEach _ _ | SInclude _ _ | SContent => true | _ => false end.
Fixpoint block_then_direct (seen_block : bool) (l : list stmt) : bool :=
  match l with
  | [] => false
  | x :: r => (seen_block && is_direct x) || block_then_direct (seen_block || is_block x) r
  end.
Definition mixed (l : list stmt) : bool := existsb is_block l && existsb is_direct l.
Fixpoint reorder (s : stmt) : bool :=
  let any := fix any (l : list stmt) : bool := match l with [] => false | x :: r => reorder x || any r end in
  match s with
  | SMedia _ b | SAtR _ _ (Some b) => block_then_direct false b || any b
  | SNs _ _ b | SRule _ b | SAtRoot _ b => any b
  | SLoop _ b => mixed b || any b
  | SEach p bs => mixed p || any p || (fix anyl (l : list (list stmt)) : bool := match l with [] => false | x :: r => mixed x || any x || anyl r end) bs
  | SIf _ t e => block_then_direct false t || block_then_direct false e || any t || any e
  | SInclude _ (Some c) => block_then_direct false c || any c
  | _ => false
  end.
(* mixin bodies and content blocks are spliced into their call sites: any
   program with mixins that contain blocks, or at-rules around includes, is
   conservatively put in the class by treating @include/@content as both *)
Definition known_reorder (p : program) : bool :=
  existsb reorder (p_main p) || existsb (existsb reorder) (p_mixins p)
  || existsb (block_then_direct false) (p_mixins p).
