(* Reference semantics for C20, written from the Sass documentation of nesting,
   at-rule bubbling and @at-root - NOT from rsass's destinations: a direct
   recursive flattening of a rule tree into top-level CSS items.

   A body is processed in order under a current selector; direct declarations
   are collected into one style rule until a nested block interrupts them
   (declaration order is kept); a nested @media / @supports / unknown at-rule
   is emitted in place at the level of the enclosing rule with the body
   flattened under the SAME selector; @keyframes restarts with no selector;
   @at-root restarts with no selector, or with the given one (`&` = the old one). *)
From Coq Require Import List NArith Bool Arith.
From RV Require Import Base.Text Model.Out Model.OutDest.
Import ListNotations.
Local Open Scope N_scope.

Definition keyframes_name : bytes := [107;101;121;102;114;97;109;101;115].

Definition flush (c : sctx) (cur : list item) : option (list item) :=
  match cur with
  | [] => Some []
  | _ => match c_s c with Some ss => Some [IRule (leaves ss) cur] | None => None end
  end.

Definition opt_app {A} (a b : option (list A)) : option (list A) :=
  match a, b with Some x, Some y => Some (x ++ y) | _, _ => None end.

(* None = outside the reference (a declaration with no selector, an unsupported statement) *)
Fixpoint sflat (fuel : nat) (c : sctx) (l : list stmt) (cur : list item) : option (list item) :=
  match fuel with
  | O => None
  | S n =>
    match l with
    | [] => flush c cur
    | x :: r =>
      match x with
      | SDecl name v => sflat n c r (cur ++ [IProp name (same_leaf v)])
      | SRule sels b =>
          match nest c sels with
          | Some ss => opt_app (flush c cur) (opt_app (sflat n (mkCtx (Some ss) None) b []) (sflat n c r []))
          | None => None
          end
      | SMedia q b =>
          match sflat n c b [] with
          | Some inner => opt_app (flush c cur) (opt_app (Some [IMedia (MName q) inner]) (sflat n c r []))
          | None => None
          end
      | SAtR name args (Some b) =>
          let c' := if bytes_eqb name keyframes_name then root_ctx else c in
          match sflat n c' b [] with
          | Some inner => opt_app (flush c cur)
                            (opt_app (Some [IAt name (option_map same_leaf args) (Some inner)]) (sflat n c r []))
          | None => None
          end
      | SAtRoot sels b =>
          match at_root c sels with
          | Some c' => opt_app (flush c cur) (opt_app (sflat n c' b []) (sflat n c r []))
          | None => None
          end
      | _ => None
      end
    end
  end.

Definition reference (p : program) : option cssdata :=
  match p_mixins p with
  | [] => match sflat 4096 root_ctx (p_main p) [] with
          | Some l => Some (mkData [] l)
          | None => None
          end
  | _ => None
  end.
