(* Reference semantics of CSS calculations (CSS Values and Units, "Mathematical
   expressions"), written from the specification, not from rsass.

   A calculation tree IS its grouping; `* /` bind tighter than `+ -`, all
   left-associative.  [cvalue] gives a tree its typed value (magnitude in
   canonical units and dimension vector) under an environment for var().
   [decode] reads emitted text (a plain dimension, or calc()/min()/max()/clamp()
   with nested sums) back into a tree. *)
From Coq Require Import String List NArith ZArith QArith Qabs Bool Ascii.
From RV Require Import Base.Text Spec.CssUnits.
Import ListNotations.
Local Open Scope Z_scope.

Inductive cop : Type := CAdd | CSub | CMul | CDiv.

Inductive ctree : Type :=
| CNum (q : Q) (u : string)          (* a dimension: number and unit name ("" = none) *)
| CVar (i : nat)                     (* var(--v<i>) *)
| CBin (o : cop) (l r : ctree)
| CFun (name : string) (args : list ctree).   (* min / max / clamp (calc = one-argument wrapper) *)

Definition cprec (o : cop) : nat := match o with CAdd | CSub => 1 | CMul | CDiv => 2 end%nat.

(* ---- typed value ---- *)
Definition quant := (Q * dimvec)%type.
Definition dv_neg (d : dimvec) : dimvec := map (fun gp => (fst gp, - snd gp)) d.
Definition dv_mul (a b : dimvec) : dimvec := dv_norm (fold_left (fun d gp => dv_add d (fst gp) (snd gp)) b a).

Definition q_is_zero (q : Q) : bool := Qeq_bool q 0.

Section Value.
  Variable env : list quant.
  (* context-dependent units (em, %, ...): how many px one of them is in this environment;
     empty when only the fixed CSS ratios may be used *)
  Variable uenv : list (string * Q).
  Fixpoint cvalue (t : ctree) : option quant :=
    match t with
    | CNum q u =>
        match sassoc u uenv with
        | Some k => Some ((q * k)%Q, [("length"%string, 1)])
        | None => Some (let (m, d) := quantity q [(u, 1)] in (m, dv_norm d))
        end
    | CVar i => nth_error env i
    | CBin o l r =>
        match cvalue l, cvalue r with
        | Some (a, da), Some (b, db) =>
            match o with
            | CAdd => if dv_eqb da db then Some (a + b, da)%Q else None
            | CSub => if dv_eqb da db then Some (a - b, da)%Q else None
            | CMul => Some (a * b, dv_mul da db)%Q
            | CDiv => if q_is_zero b then None else Some (a / b, dv_mul da (dv_neg db))%Q
            end
        | _, _ => None
        end
    | CFun name args =>
        let vs := map cvalue args in
        match vs with
        | Some (a, da) :: rest =>
            let same := forallb (fun v => match v with Some (_, d) => dv_eqb da d | None => false end) rest in
            if negb same then None else
            let qs := map (fun v => match v with Some (q, _) => q | None => 0%Q end) rest in
            if String.eqb name "calc" then (match rest with [] => Some (a, da) | _ => None end)
            else if String.eqb name "min" then Some (fold_left (fun m q => if Qle_bool q m then q else m) qs a, da)
            else if String.eqb name "max" then Some (fold_left (fun m q => if Qle_bool m q then q else m) qs a, da)
            else if String.eqb name "clamp" then
              match qs with
              | [v; hi] => Some ((let x := if Qle_bool hi v then hi else v in if Qle_bool x a then a else x), da)
              | _ => None
              end
            else None
        | _ => None
        end
    end.
End Value.

Fixpoint has_var (t : ctree) : bool :=
  match t with
  | CNum _ _ => false
  | CVar _ => true
  | CBin _ l r => has_var l || has_var r
  | CFun _ args => existsb has_var args
  end.

(* every value met in the tree is a plain CSS dimension: at most one group, power 1 *)
Definition plain_dim (d : dimvec) : bool :=
  match dv_norm d with [] => true | [(_, p)] => (p =? 1) | _ => false end.
Section Plain.
  Variable env : list quant.
  Variable uenv : list (string * Q).
  Fixpoint all_plain (t : ctree) : bool :=
    match cvalue env uenv t with Some (_, d) => plain_dim d | None => false end &&
    match t with
    | CBin _ l r => all_plain l && all_plain r
    | CFun _ args => forallb all_plain args
    | _ => true
    end.
End Plain.

Definition quant_close (tol : Q) (a b : quant) : bool :=
  dv_eqb (snd a) (snd b) && (q_close tol (fst a) (fst b) || Qle_bool (Qabs (fst a - fst b)) tol).

(* ---- tokens of the text of a calculation ---- *)
Inductive ctok : Type :=
| KNumber (q : Q) (u : string)
| KVarRef (i : nat)
| KOper (o : cop)
| KOpen | KClose | KComma
| KFunc (name : string).       (* `name(` *)

(* ---- token-level reader: a sum is terms joined by + or -, a term is factors joined by times or slash ---- *)
Inductive cres : Type :=
| ROk (t : ctree) (rest : list ctok)
| RFail
| RFuel.

Fixpoint cloop (isop : cop -> bool) (sub : list ctok -> cres) (n : nat) (acc : ctree) (ts : list ctok) : cres :=
  match n with
  | O => RFuel
  | S n' =>
      match ts with
      | KOper o :: r =>
          if isop o then
            match sub r with
            | ROk b r' => cloop isop sub n' (CBin o acc b) r'
            | x => x
            end
          else ROk acc ts
      | _ => ROk acc ts
      end
  end.

Definition is_addsub (o : cop) : bool := match o with CAdd | CSub => true | _ => false end.
Definition is_muldiv (o : cop) : bool := negb (is_addsub o).

Fixpoint c_sum (fuel : nat) (ts : list ctok) : cres :=
  match fuel with
  | O => RFuel
  | S f =>
      let factor (ts : list ctok) : cres :=
        match ts with
        | KNumber q u :: r => ROk (CNum q u) r
        | KVarRef i :: r => ROk (CVar i) r
        | KOpen :: r =>
            match c_sum f r with
            | ROk e (KClose :: r') => ROk e r'
            | ROk _ _ => RFail
            | x => x
            end
        | KFunc name :: r =>
            (fix args (n : nat) (acc : list ctree) (ts : list ctok) : cres :=
               match n with
               | O => RFuel
               | S n' =>
                   match c_sum f ts with
                   | ROk e (KComma :: r') => args n' (acc ++ [e]) r'
                   | ROk e (KClose :: r') => ROk (CFun name (acc ++ [e])) r'
                   | ROk _ _ => RFail
                   | x => x
                   end
               end) f [] r
        | _ => RFail
        end in
      let term (ts : list ctok) : cres :=
        match factor ts with
        | ROk v r => cloop is_muldiv factor (S (length r)) v r
        | x => x
        end in
      match term ts with
      | ROk v r => cloop is_addsub term (S (length r)) v r
      | x => x
      end
  end.

Definition cparse (ts : list ctok) : option ctree :=
  match c_sum (S (length ts)) ts with
  | ROk t [] => Some t
  | _ => None
  end.

(* ---- lexer: bytes -> tokens ---- *)
Local Open Scope N_scope.
Definition is_digit (c : N) : bool := (48 <=? c) && (c <=? 57).
Definition is_alpha (c : N) : bool := ((97 <=? c) && (c <=? 122)) || ((65 <=? c) && (c <=? 90)).
Definition is_unit_char (c : N) : bool := is_alpha c || (c =? 37).

Fixpoint take_while (p : N -> bool) (s : list N) : list N * list N :=
  match s with
  | c :: r => if p c then let (a, b) := take_while p r in (c :: a, b) else ([], s)
  | [] => ([], [])
  end.

Definition digits_val (ds : list N) : Z := fold_left (fun a d => (a * 10 + Z.of_N (d - 48))%Z) ds 0%Z.
Definition string_of_bytes (b : list N) : string :=
  fold_right (fun c s => String (ascii_of_N c) s) EmptyString b.

(* optional minus, digits, optional fraction, unit letters  ->  (value, unit, rest) *)
Definition lex_number (s : list N) : option (Q * string * list N) :=
  let (neg, s1) := match s with 45 :: r => (true, r) | _ => (false, s) end in
  let (ip, s2) := take_while is_digit s1 in
  let '(fp, s3) := match s2 with
                   | 46 :: r => take_while is_digit r
                   | _ => ([], s2)
                   end in
  match ip, fp with
  | [], [] => None
  | _, _ =>
      let m := digits_val (ip ++ fp) in
      let d := Z.to_pos (10 ^ Z.of_nat (length fp)) in
      let (us, s4) := take_while is_unit_char s3 in
      Some ((if neg then (- m)%Z else m) # d, string_of_bytes us, s4)
  end.

Definition starts_number (s : list N) : bool :=
  match s with
  | c :: r => is_digit c || ((c =? 46) && match r with d :: _ => is_digit d | [] => false end)
              || ((c =? 45) && match r with d :: r' => is_digit d || ((d =? 46) && match r' with e :: _ => is_digit e | [] => false end) | [] => false end)
  | [] => false
  end.

Fixpoint lex (fuel : nat) (s : list N) : option (list ctok) :=
  match fuel with
  | O => None
  | S f =>
      match s with
      | [] => Some []
      | 32 :: r => lex f r
      | 40 :: r => option_map (cons KOpen) (lex f r)
      | 41 :: r => option_map (cons KClose) (lex f r)
      | 44 :: r => option_map (cons KComma) (lex f r)
      | 43 :: r => option_map (cons (KOper CAdd)) (lex f r)
      | 42 :: r => option_map (cons (KOper CMul)) (lex f r)
      | 47 :: r => option_map (cons (KOper CDiv)) (lex f r)
      | c :: r =>
          if starts_number s then
            match lex_number s with
            | Some (q, u, rest) => option_map (cons (KNumber q u)) (lex f rest)
            | None => None
            end
          else if c =? 45 then option_map (cons (KOper CSub)) (lex f r)
          else if is_alpha c then
            let (nm, rest) := take_while (fun c => is_alpha c || is_digit c || (c =? 45)) s in
            match rest with
            | 40 :: rest' =>
                if bytes_eqb nm [118;97;114] then
                  (* var(--v<digits>) *)
                  match rest' with
                  | 45 :: 45 :: 118 :: r2 =>
                      let (ds, r3) := take_while is_digit r2 in
                      match ds, r3 with
                      | _ :: _, 41 :: r4 => option_map (cons (KVarRef (Z.to_nat (digits_val ds)))) (lex f r4)
                      | _, _ => None
                      end
                  | _ => None
                  end
                else option_map (cons (KFunc (string_of_bytes nm))) (lex f rest')
            | _ => None
            end
          else None
      end
  end.

(* emitted text -> tree; the outer calc( ) wrapper is transparent *)
Fixpoint strip_calc (t : ctree) : ctree :=
  match t with
  | CFun name [a] => if String.eqb name "calc" then strip_calc a else t
  | _ => t
  end.
Definition decode (text : list N) : option ctree :=
  match lex (S (length text)) text with
  | Some ts => cparse ts
  | None => None
  end.

(* ---- which parentheses the grouping of a calculation needs when it is written out ---- *)
Local Open Scope nat_scope.
Definition need_paren_right (o o2 : cop) : bool :=
  Nat.ltb (cprec o2) (cprec o)
  || (Nat.eqb (cprec o2) (cprec o) && match o with CSub | CDiv => true | _ => false end).
Definition need_paren_left (o o1 : cop) : bool := Nat.ltb (cprec o1) (cprec o).

(* Re-association that does not change the value of a calculation:
   a + (b + c) = (a + b) + c,  a + (b - c) = (a + b) - c,  a * (b * c) = (a * b) * c,
   a * (b / c) = (a * b) / c.  [lnorm] moves every such right-nested chain to the left. *)
Fixpoint attach (x : ctree) (o : cop) (y : ctree) : ctree :=
  match y with
  | CBin o2 y1 y2 =>
      if Nat.eqb (cprec o) (cprec o2) && match o with CAdd | CMul => true | _ => false end
      then CBin o2 (attach x o y1) y2
      else CBin o x y
  | _ => CBin o x y
  end.
Fixpoint lnorm (t : ctree) : ctree :=
  match t with
  | CBin o l r => attach (lnorm l) o (lnorm r)
  | t => t
  end.
