(* A small CSS scanner, written from the CSS Syntax specification (not from
   rsass).  It defines what "outside strings, comments and url()" means, the
   bracket balance of a byte string, and a whitespace / comment normalisation
   used to compare two renderings of one stylesheet (C07, C08, C09, C20, C36).

   The scanner is a byte automaton `step`, so that scanning a concatenation is
   a fold (fold_left_app); strings are left only by their closing quote, comments
   only by `*/`, raw url() only by `)`. *)
From Coq Require Import List NArith Bool.
From RV Require Import Base.Text.
Import ListNotations.
Local Open Scope N_scope.

Inductive mode :=
| N0        (* normal *)
| NSlash    (* normal, previous byte was `/`      *)
| NU | NUR | NURL   (* normal, have just read u / ur / url (any case) *)
| UrlOpen   (* after `url(`, before the first non-blank byte *)
| Url | UrlEsc      (* raw url text *)
| DQ | DQEsc | SQ | SQEsc
| Com | ComStar
| Bad.      (* a closing bracket without its opener *)

Definition state := (mode * list N)%type.   (* open brackets, innermost first: 123 `{` or 91 `[` *)

Definition normal_class (m : mode) : bool :=
  match m with N0 | NSlash | NU | NUR | NURL => true | _ => false end.

Definition is_blank (c : N) : bool :=
  (c =? 32) || (c =? 9) || (c =? 10) || (c =? 13) || (c =? 12).

Definition sub_next (m : mode) (c : N) : mode :=
  if c =? 47 then NSlash
  else if (c =? 117) || (c =? 85) then NU
  else match m with
       | NU => if (c =? 114) || (c =? 82) then NUR else N0
       | NUR => if (c =? 108) || (c =? 76) then NURL else N0
       | _ => N0
       end.

Definition close (o : N) (k : list N) : state :=
  match k with
  | x :: k' => if x =? o then (N0, k') else (Bad, k)
  | [] => (Bad, k)
  end.

Definition is_slash (m : mode) : bool := match m with NSlash => true | _ => false end.
Definition is_nurl (m : mode) : bool := match m with NURL => true | _ => false end.

Definition step_normal (m : mode) (k : list N) (c : N) : state :=
  if is_slash m && (c =? 42) then (Com, k)
  else if is_nurl m && (c =? 40) then (UrlOpen, k)
  else if c =? 34 then (DQ, k) else if c =? 39 then (SQ, k)
  else if c =? 123 then (N0, 123 :: k) else if c =? 91 then (N0, 91 :: k)
  else if c =? 125 then close 123 k else if c =? 93 then close 91 k
  else (sub_next m c, k).

Definition step (s : state) (c : N) : state :=
  let (m, k) := s in
  match m with
  | N0 | NSlash | NU | NUR | NURL => step_normal m k c
  | UrlOpen => if is_blank c then (UrlOpen, k)
               else if c =? 34 then (DQ, k) else if c =? 39 then (SQ, k)
               else if c =? 41 then (N0, k) else if c =? 92 then (UrlEsc, k) else (Url, k)
  | Url => if c =? 41 then (N0, k) else if c =? 92 then (UrlEsc, k) else (Url, k)
  | UrlEsc => (Url, k)
  | DQ => if c =? 34 then (N0, k) else if c =? 92 then (DQEsc, k) else (DQ, k)
  | DQEsc => (DQ, k)
  | SQ => if c =? 39 then (N0, k) else if c =? 92 then (SQEsc, k) else (SQ, k)
  | SQEsc => (SQ, k)
  | Com => if c =? 42 then (ComStar, k) else (Com, k)
  | ComStar => if c =? 47 then (N0, k) else if c =? 42 then (ComStar, k) else (Com, k)
  | Bad => (Bad, k)
  end.

Definition run_from (s : state) (x : list N) : state := fold_left step x s.
Definition run (x : list N) : state := run_from (N0, []) x.

(* braces and brackets balance outside strings, comments and url() *)
Definition balanced (x : list N) : bool :=
  match run x with
  | (m, []) => normal_class m
  | _ => false
  end.

(* a piece of text that can be dropped into normal context: scanned from the
   plain normal state with nothing open, it comes back to it *)
Definition neutral (x : list N) : bool :=
  match run x with
  | (N0, []) => true
  | _ => false
  end.

(* ------------------------------------------------------------------------ *)
(* framing clauses of C07, on a byte string *)

Definition is_ascii (x : list N) : bool := forallb (fun c => c <? 128) x.

Fixpoint starts_with (p x : list N) : bool :=
  match p, x with
  | [], _ => true
  | a :: p', b :: x' => (a =? b) && starts_with p' x'
  | _ :: _, [] => false
  end.

Definition charset_mark : list N :=
  [64;99;104;97;114;115;101;116;32;34;85;84;70;45;56;34;59;10].    (* @charset "UTF-8";\n *)
Definition bom_mark : list N := [239;187;191].

(* empty, or ends with exactly one newline *)
Definition final_newline_ok (x : list N) : bool :=
  match rev x with
  | [] => true
  | 10 :: [] => false               (* a lone newline is "empty plus a newline" *)
  | 10 :: c :: _ => negb (c =? 10)
  | _ => false
  end.

Definition marker_ok (compressed : bool) (x : list N) : bool :=
  let mark := if compressed then bom_mark else charset_mark in
  is_ascii x || starts_with mark x.

(* compressed: no line break except the final one, outside custom-property
   values.  A custom-property value starts after `--name:` at the start of a
   declaration and ends at the `;` or `}` closing it at the same depth. *)
Record lstate := mkL {
  l_st : state;           (* scanner state *)
  l_decl : bool;          (* at the start of a declaration (after `{`, `;`, `}` or at the top) *)
  l_dash : bool;          (* the declaration started with one `-` *)
  l_cust : option nat;    (* inside a custom property that began at this depth *)
  l_ok : bool }.

Definition lstep (a : lstate) (nc : N * bool) : lstate :=
  let (c, last) := nc in
  let '(m, k) := l_st a in
  let st' := step (m, k) c in
  let depth := length k in
  if normal_class m then
    match fst st', l_cust a with
    | Com, _ => mkL st' (l_decl a) (l_dash a) (l_cust a) (l_ok a)     (* a comment opens: nothing changes *)
    | _, Some d =>
        if ((c =? 59) && Nat.eqb depth d) || ((c =? 125) && Nat.eqb depth d)
        then mkL st' true false None (l_ok a)
        else mkL st' false false (Some d) (l_ok a)
    | _, None =>
        let ok := l_ok a && (negb (c =? 10) || last) in
        if l_decl a && l_dash a && (c =? 45) then mkL st' false false (Some depth) ok
        else if l_decl a && negb (l_dash a) && (c =? 45) then mkL st' true true None ok
        else if (c =? 123) || (c =? 59) || (c =? 125) then mkL st' true false None ok
        else if (is_blank c || (c =? 47)) && l_decl a && negb (l_dash a) then mkL st' true false None ok
        else mkL st' false false None ok
    end
  else
    match l_cust a with
    | Some d => mkL st' false false (Some d) (l_ok a)
    | None =>
        let keep := match m with Com | ComStar => l_decl a | _ => false end in
        mkL st' keep false None (l_ok a && (negb (c =? 10) || last))
    end.

Fixpoint mark_last (x : list N) : list (N * bool) :=
  match x with
  | [] => []
  | [c] => [(c, true)]
  | c :: r => (c, false) :: mark_last r
  end.

Definition one_line_ok (x : list N) : bool :=
  l_ok (fold_left lstep (mark_last x) (mkL (N0, []) true false None true)).

(* ------------------------------------------------------------------------ *)
(* normalisation: comments removed, white space removed where it cannot
   separate two words, a `0` before `.digit` removed when it starts a number;
   strings and url() bodies are kept byte for byte. *)

Definition is_word (c : N) : bool :=
  is_ascii_lower c || is_ascii_upper c || is_ascii_digit c
  || (c =? 45) || (c =? 95) || (c =? 46) || (c =? 35) || (c =? 37) || (c =? 42)
  || (c =? 34) || (c =? 39) || (c =? 92) || (c =? 64) || (c =? 38) || (128 <=? c).

(* output is built reversed; `sp` = white space (or a comment) is pending *)
Record nstate := mkN { n_st : state; n_out : list N; n_sp : bool; n_slash : bool }.

Definition emit (a : nstate) (st' : state) (c : N) : nstate :=
  let out := n_out a in
  let out1 :=
    if n_sp a then
      match out with
      | p :: _ => if is_word p && is_word c then 32 :: out else out
      | [] => out
      end
    else out in
  mkN st' (c :: out1) false false.

Definition nstep (a : nstate) (c : N) : nstate :=
  let '(m, k) := n_st a in
  if n_slash a then
    (* the byte after a backslash outside strings: part of the identifier, not syntax *)
    mkN (m, k) (c :: n_out a) false false
  else
  let st' := step (m, k) c in
  if normal_class m then
    if c =? 92 then
      let e := emit a (m, k) c in mkN (m, k) (n_out e) false true
    else
    match fst st' with
    | Com =>            (* the `/` already emitted opens a comment: take it back *)
        mkN st' (match n_out a with 47 :: o => o | o => o end) true false
    | _ => if is_blank c then mkN st' (n_out a) true false else emit a st' c
    end
  else
    match m with
    | Com | ComStar => mkN st' (n_out a) true false
    | _ => mkN st' (c :: n_out a) false false
    end.

(* drop a `0` that is directly followed by `.digit` and is not preceded by a word byte *)
Fixpoint strip0 (prev_word : bool) (x : list N) : list N :=
  match x with
  | 48 :: ((46 :: d :: _) as r) =>
      if negb prev_word && is_ascii_digit d then strip0 false r else 48 :: strip0 true r
  | c :: r => c :: strip0 (is_word c && negb (c =? 45)) r
  | [] => []
  end.

(* `;` directly before `}` and at the very end is optional *)
Fixpoint drop_last_semi (x : list N) : list N :=
  match x with
  | 59 :: ((125 :: _) as r) => drop_last_semi r
  | [59] => []
  | c :: r => c :: drop_last_semi r
  | [] => []
  end.

Definition strip_mark (x : list N) : list N :=
  if starts_with charset_mark x then skipn (length charset_mark) x
  else if starts_with bom_mark x then skipn 3 x else x.

(* a block without content (`sel{}`, also after its comments were removed) says
   nothing: drop it with its prelude, repeatedly (fuel = length) *)
Fixpoint drop_prelude (r : list N) : list N :=      (* r is reversed output *)
  match r with
  | c :: r' => if (c =? 125) || (c =? 123) || (c =? 59) then r else drop_prelude r'
  | [] => []
  end.
Fixpoint drop_empty_go (x : list N) (out : list N) : list N :=
  match x with
  | 123 :: 125 :: r => drop_empty_go r (drop_prelude out)
  | c :: r => drop_empty_go r (c :: out)
  | [] => rev out
  end.
Fixpoint drop_empty (fuel : nat) (x : list N) : list N :=
  match fuel with
  | O => x
  | S n => let y := drop_empty_go x [] in
           if Nat.eqb (length y) (length x) then x else drop_empty n y
  end.

Definition normalize (x : list N) : list N :=
  let y := drop_last_semi (strip0 false (rev (n_out (fold_left nstep (strip_mark x) (mkN (N0, []) [] false false))))) in
  drop_last_semi (drop_empty 8 y).
