(* Reference for C14, from the Sass documentation: only `false` and `null` are
   falsey; `not`, `and`, `or` on truthiness; right operand evaluated on demand.
   A value is abstracted to: falsey-or-not and an identity (its printed text). *)
From Coq Require Import List ZArith Bool NArith.
Import ListNotations.

Record sval := mkS { s_falsey : bool; s_text : list N }.

Inductive sexpr : Type :=
| SVal (v : sval) (effect : option N)      (* operand yielding v, optionally recording an effect *)
| SFail (id : N) (effect : option N)       (* operand that fails *)
| SNot (e : sexpr) | SAnd (a b : sexpr) | SOr (a b : sexpr).

Inductive sres : Type := SOk (v : sval) | SBool (b : bool) | SErr (id : N).

Definition falsey (r : sres) : bool :=
  match r with SOk v => s_falsey v | SBool b => negb b | SErr _ => false end.

Definition rec_eff (o : option N) (log : list N) : list N :=
  match o with Some i => log ++ [i] | None => log end.

Fixpoint seval (e : sexpr) (log : list N) : sres * list N :=
  match e with
  | SVal v eff => (SOk v, rec_eff eff log)
  | SFail id eff => (SErr id, rec_eff eff log)
  | SNot a => match seval a log with
              | (SErr i, l) => (SErr i, l)
              | (r, l) => (SBool (falsey r), l)
              end
  | SAnd a b => match seval a log with
                | (SErr i, l) => (SErr i, l)
                | (r, l) => if falsey r then (r, l) else seval b l
                end
  | SOr a b => match seval a log with
               | (SErr i, l) => (SErr i, l)
               | (r, l) => if falsey r then seval b l else (r, l)
               end
  end.
