(* The string a CSS <string-token> body denotes (CSS Syntax Level 3, 4.3.5 and
   4.3.7 "consume an escaped code point"); Sass quoted strings use the same rules. *)
From Coq Require Import List NArith Bool.
Import ListNotations.
Local Open Scope N_scope.
Local Open Scope list_scope.

Definition hexv (c : N) : option N :=
  if (48 <=? c) && (c <=? 57) then Some (c - 48)
  else if (97 <=? c) && (c <=? 102) then Some (c - 87)
  else if (65 <=? c) && (c <=? 70) then Some (c - 55)
  else None.

Definition is_ws (c : N) : bool := (c =? 32) || (c =? 9) || (c =? 10) || (c =? 13) || (c =? 12).

Definition code_point (v : N) : N :=
  if (v =? 0) || ((55296 <=? v) && (v <=? 57343)) || (1114111 <? v) then 65533 else v.

Inductive dst : Type := DNormal | DSlash | DHex (v : N) (n : nat).

Fixpoint decode (l : list N) (st : dst) : list N :=
  match l, st with
  | [], DNormal => []
  | [], DSlash => []                                   (* backslash at the end of input: nothing *)
  | [], DHex v _ => [code_point v]
  | c :: r, DNormal => if c =? 92 then decode r DSlash else c :: decode r DNormal
  | c :: r, DSlash =>
      match hexv c with
      | Some d => decode r (DHex d 1)
      | None => if c =? 10 then decode r DNormal            (* escaped newline: line continuation *)
                else c :: decode r DNormal
      end
  | c :: r, DHex v n =>
      match hexv c with
      | Some d => if Nat.ltb n 6 then decode r (DHex (v * 16 + d) (S n))
                  else code_point v :: c :: decode r DNormal
      | None =>
          if is_ws c then code_point v :: decode r DNormal   (* one whitespace is swallowed *)
          else code_point v :: (if c =? 92 then decode r DSlash else c :: decode r DNormal)
      end
  end.

Definition css_decode (body : list N) : list N := decode body DNormal.
