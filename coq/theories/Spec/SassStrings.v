(* Reference semantics of the sass:string functions on code points, written from
   the Sass documentation (sass-lang.com/documentation/modules/string): positions
   are 1-based, negative positions count from the end (-1 is the last character). *)
From Coq Require Import String List NArith ZArith Bool.
Import ListNotations.
Local Open Scope list_scope.
Local Open Scope Z_scope.

Definition sp_length (s : list N) : Z := Z.of_nat (length s).

Fixpoint list_N_eqb (a b : list N) : bool :=
  match a, b with
  | [], [] => true
  | x :: a', y :: b' => N.eqb x y && list_N_eqb a' b'
  | _, _ => false
  end.

(* does `sub` occur in s starting at 0-based offset k *)
Definition occurs_at (s sub : list N) (k : nat) : bool :=
  list_N_eqb (firstn (length sub) (skipn k s)) sub.

(* index: the first 1-based position where the substring occurs, or null *)
Definition sp_index (s sub : list N) : option Z :=
  option_map (fun k => Z.of_nat k + 1) (find (occurs_at s sub) (seq 0 (S (length s)))).

(* insert: $insert is placed before position $index; a negative $index places it after that
   position counted from the end; positions beyond either end are clamped *)
Definition sp_insert (s x : list N) (i : Z) : list N :=
  let len := Z.of_nat (length s) in
  let before := if 0 <=? i then Z.min (Z.max (i - 1) 0) len else Z.max (len + i + 1) 0 in
  firstn (Z.to_nat before) s ++ x ++ skipn (Z.to_nat before) s.

(* slice: the characters from position $start-at through position $end-at, both inclusive;
   empty when no position lies in that range *)
Definition sp_first (i : Z) (len : Z) : Z :=
  if 0 <? i then i else if i <? 0 then Z.max (len + i + 1) 1 else 1.
Definition sp_last (j : Z) (len : Z) : Z :=
  if 0 <=? j then Z.min j len else len + j + 1.
Definition sp_slice (s : list N) (i j : Z) : list N :=
  let len := Z.of_nat (length s) in
  let a := sp_first i len in
  let b := sp_last j len in
  if b <? a then [] else skipn (Z.to_nat (a - 1)) (firstn (Z.to_nat b) s).

(* case functions change ASCII letters only *)
Definition sp_upper1 (c : N) : N := if ((97 <=? c) && (c <=? 122))%N then (c - 32)%N else c.
Definition sp_lower1 (c : N) : N := if ((65 <=? c) && (c <=? 90))%N then (c + 32)%N else c.
Definition sp_upper (s : list N) : list N := map sp_upper1 s.
Definition sp_lower (s : list N) : list N := map sp_lower1 s.
