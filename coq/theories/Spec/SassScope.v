(* Reference interpreter for Sass variable scoping, written from the four
   sentences of the property (and the Sass language reference), not from rsass:
   1. an unflagged assignment updates the variable in the innermost enclosing
      scope that already declares it;
   2. a global variable is instead shadowed by a new local, unless the
      assignment sits in top-level flow control or says !global;
   3. !global always writes the global; !default assigns only when the variable
      is undefined or null;
   4. @each/@for loop variables and mixin parameters are local to their block.
   Every block has its own scope: rules, @media, @if branches, the @each loop,
   each @for iteration, the @while loop, a mixin body (whose parent is the
   definition scope: mixins are defined at top level here).
   Where the text is silent (one scope per @for iteration, one per @each/@while
   loop) the reading closest to the implementation is taken.

   Besides the result the interpreter reports, from the INPUT alone, whether the
   run contains one of the situations in which the pinned rsass is known to
   deviate (the known classes of C16). *)
From Coq Require Import List ZArith Bool.
From RV Require Import Spec.SassFlow Model.EvScope.
Import ListNotations.
Local Open Scope Z_scope.

Inductive ftag : Type := TRule | TIf | TEach | TFor | TWhile | TMixin.
(* flow-control scopes: at top level they are "semi-global" *)
Definition is_flow (t : ftag) : bool :=
  match t with TIf | TEach | TFor | TWhile => true | _ => false end.
(* scopes for which rsass (transform.rs) also creates a Scope *)
Definition is_hard (t : ftag) : bool :=
  match t with TIf | TEach => false | _ => true end.

Record sstate := mkSS { slocals : list (ftag * frame); sglobal : frame }.

(* the situations (events) that define the known classes *)
Record events := mkEv {
  ev_inner_update : bool;   (* K1: unflagged assignment updates a variable of an enclosing scope across a
                               boundary where rsass creates a scope (rule, @media, @for, @while, mixin) *)
  ev_soft_decl : bool;      (* K2: a new variable is declared inside an @if / @each body *)
  ev_each_alias : bool      (* K3: while an @each loop sitting in top-level @if/@each only is live (rsass keeps its
                               variable in the global scope): a !global assignment to the loop variable's name,
                               or a mixin include (the mixin body sees the loop variable as a global) *)
}.
Definition ev_none : events := mkEv false false false.
Definition ev_or (a b : events) : events :=
  mkEv (ev_inner_update a || ev_inner_update b) (ev_soft_decl a || ev_soft_decl b)
       (ev_each_alias a || ev_each_alias b).

Fixpoint schain_get (l : list (ftag * frame)) (x : var) : option sval :=
  match l with
  | [] => None
  | (_, f) :: r => match f_get f x with Some v => Some v | None => schain_get r x end
  end.
Definition slookup (st : sstate) (x : var) : option sval :=
  match schain_get (slocals st) x with Some v => Some v | None => f_get (sglobal st) x end.

(* update x in the innermost local scope that declares it; also says whether a hard boundary was crossed *)
Fixpoint update_innermost (l : list (ftag * frame)) (x : var) (v : sval) (crossed : bool)
  : option (list (ftag * frame) * bool) :=
  match l with
  | [] => None
  | (t, f) :: r =>
      match f_get f x with
      | Some _ => Some ((t, f_set f x v) :: r, crossed)
      | None =>
          match update_innermost r x v (crossed || is_hard t) with
          | Some (r', c) => Some ((t, f) :: r', c)
          | None => None
          end
      end
  end.

Definition semi_global (st : sstate) : bool := forallb (fun tf => is_flow (fst tf)) (slocals st).

Definition declare_current (st : sstate) (x : var) (v : sval) : sstate * events :=
  match slocals st with
  | [] => (mkSS [] (f_set (sglobal st) x v), ev_none)
  | (t, f) :: r => (mkSS ((t, f_set f x v) :: r) (sglobal st), mkEv false (negb (is_hard t)) false)
  end.

(* is there a live @each variable x whose scope, and every scope outside it, is soft? *)
Fixpoint each_alias (l : list (ftag * frame)) (x : var) : bool :=
  match l with
  | [] => false
  | (t, f) :: r =>
      (match t, f_get f x with TEach, Some _ => true | _, _ => false end
       && forallb (fun tf => negb (is_hard (fst tf))) ((t, f) :: r))
      || each_alias r x
  end.

(* is any @each loop live whose scope, and every scope outside it, is soft? *)
Fixpoint each_alias_any (l : list (ftag * frame)) : bool :=
  match l with
  | [] => false
  | (t, f) :: r =>
      (match t with TEach => true | _ => false end
       && forallb (fun tf => negb (is_hard (fst tf))) ((t, f) :: r))
      || each_alias_any r
  end.

Definition assign (st : sstate) (x : var) (v : sval) (dflt glob : bool) : sstate * events :=
  if dflt && match slookup st x with Some (SV _) => true | _ => false end then (st, ev_none)
  else if glob then
    (mkSS (slocals st) (f_set (sglobal st) x v), mkEv false false (each_alias (slocals st) x))
  else
    match update_innermost (slocals st) x v false with
    | Some (l', crossed) => (mkSS l' (sglobal st), mkEv crossed false false)
    | None =>
        match f_get (sglobal st) x with
        | Some _ =>
            if semi_global st then
              (mkSS (slocals st) (f_set (sglobal st) x v),
               mkEv (existsb (fun tf => is_hard (fst tf)) (slocals st)) false false)
            else declare_current st x v
        | None => declare_current st x v
        end
    end.

Definition seval_expr (st : sstate) (e : expr) : sval :=
  match e with
  | EInt z => SV z
  | ENull => SNull
  | EVarPlus x k => match slookup st x with Some (SV z) => SV (z + k) | _ => SV k end
  end.

Definition spush (st : sstate) (t : ftag) (f : frame) : sstate := mkSS ((t, f) :: slocals st) (sglobal st).
Definition spop (st : sstate) : sstate := mkSS (tl (slocals st)) (sglobal st).
(* bind a loop variable in the current (loop) scope *)
Definition set_local (st : sstate) (x : var) (v : sval) : sstate :=
  match slocals st with
  | [] => st
  | (t, f) :: r => mkSS ((t, f_set f x v) :: r) (sglobal st)
  end.

Definition sres := (sstate * output * events)%type.

Fixpoint sexec (s : stmt) (so : sres) {struct s} : sres :=
  let sexec_list := fix sexec_list (l : list stmt) (so : sres) {struct l} : sres :=
    match l with
    | [] => so
    | s :: r => sexec_list r (sexec s so)
    end in
  let '(st, out, ev) := so in
  match s with
  | SSet x e d g =>
      let (st', e') := assign st x (seval_expr st e) d g in (st', out, ev_or ev e')
  | SRead id x => (st, out ++ [(id, slookup st x)], ev)
  | SBlock _ body =>
      let '(st', out', ev') := sexec_list body (spush st TRule [], out, ev) in (spop st', out', ev')
  | SIf c thn els =>
      let '(st', out', ev') :=
        sexec_list (if truthy_nz (seval_expr st c) then thn else els) (spush st TIf [], out, ev) in
      (spop st', out', ev')
  | SEach x items body =>
      let '(st', out', ev') :=
        fold_left (fun so i => let '(s1, o1, e1) := so in sexec_list body (set_local s1 x (SV i), o1, e1))
                  items (spush st TEach [], out, ev) in
      (spop st', out', ev')
  | SFor x a b incl body =>
      fold_left (fun so i =>
                   let '(s1, o1, e1) := so in
                   let '(s2, o2, e2) := sexec_list body (spush s1 TFor [(x, SV i)], o1, e1) in
                   (spop s2, o2, e2))
                (spec_range a b incl) (st, out, ev)
  | SWhile n body =>
      let '(st', out', ev') := repeat_fn n (sexec_list body) (spush st TWhile [], out, ev) in
      (spop st', out', ev')
  | SMixin params body =>
      let args := map (fun p => (fst p, seval_expr st (snd p))) params in
      let pframe := fold_left (fun f p => f_set f (fst p) (snd p)) args [] in
      let '(st', out', ev') := sexec_list body (mkSS [(TMixin, pframe)] (sglobal st), out, ev) in
      (mkSS (slocals st) (sglobal st'), out', ev_or ev' (mkEv false false (each_alias_any (slocals st))))
  end.

Fixpoint sexec_list (l : list stmt) (so : sres) : sres :=
  match l with
  | [] => so
  | s :: r => sexec_list r (sexec s so)
  end.

Definition spec_run (p : list stmt) : output * events :=
  let '(_, out, ev) := sexec_list p (mkSS [] [], [], ev_none) in (out, ev).
