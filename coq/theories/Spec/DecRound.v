(* Reference for C10, written from the property text (not from rsass):
   exact rational arithmetic (Q) on decimal numerals and on the exact value of a
   binary64.  No floating point here. *)
From Coq Require Import ZArith QArith Qabs List Bool NArith.
Import ListNotations.
Local Open Scope Z_scope.

(* a parsed decimal numeral: sign, integer digits, fractional digits *)
Record numeral := mkNumeral { n_neg : bool; n_int : list Z; n_frac : list Z }.

Definition is_digit (c : N) : bool := (48 <=? c)%N && (c <=? 57)%N.
Fixpoint span_digits (l : list N) : list Z * list N :=
  match l with
  | c :: r => if is_digit c then let '(ds, rest) := span_digits r in (Z.of_N c - 48 :: ds, rest)
              else ([], l)
  | [] => ([], [])
  end.

(* -?D*(.D+)? with at least one digit; anything else (exponent, letters) is rejected *)
Definition parse_numeral (t : list N) : option numeral :=
  let '(neg, t1) := match t with
                    | c :: r => if (c =? 45)%N then (true, r) else (false, t)
                    | [] => (false, t)
                    end in
  let '(wd, t2) := span_digits t1 in
  match t2 with
  | [] => match wd with [] => None | _ => Some (mkNumeral neg wd []) end
  | c :: t3 =>
      if (c =? 46)%N then
        let '(fd, t4) := span_digits t3 in
        match t4, fd with
        | [], _ :: _ => Some (mkNumeral neg wd fd)
        | _, _ => None
        end
      else None
  end.

Fixpoint digits_val (acc : Z) (ds : list Z) : Z :=
  match ds with [] => acc | d :: r => digits_val (10 * acc + d) r end.

Definition numeral_abs_Q (n : numeral) : Q :=
  (digits_val 0 (n_int n ++ n_frac n)%list # Z.to_pos (10 ^ Z.of_nat (length (n_frac n)))).
Definition numeral_Q (n : numeral) : Q :=
  if n_neg n then Qopp (numeral_abs_Q n) else numeral_abs_Q n.

Definition all_zero (ds : list Z) : bool := forallb (Z.eqb 0) ds.
Definition last_nonzero (ds : list Z) : bool :=
  match rev ds with [] => true | d :: _ => negb (d =? 0) end.

(* plain decimal notation: an integer part without superfluous leading zeros
   (absent only in compressed style, and there exactly when it is zero and a
   fraction follows), no trailing fractional zeros, no negative zero *)
Definition syntax_ok (compressed : bool) (n : numeral) : bool :=
  let wd := n_int n in let fd := n_frac n in
  (match wd with
   | [] => compressed && negb (match fd with [] => true | _ => false end)
   | [0] => negb (compressed && negb (match fd with [] => true | _ => false end))
   | 0 :: _ => false
   | _ => true
   end)
  && last_nonzero fd
  && negb (n_neg n && all_zero wd && all_zero fd).

(* number of significant digits of the numeral *)
Fixpoint drop_zeros (ds : list Z) : list Z :=
  match ds with 0 :: r => drop_zeros r | _ => ds end.
Definition sig_digits (n : numeral) : Z :=
  Z.of_nat (length (drop_zeros (n_int n ++ n_frac n)%list)).

(* number of decimal digits of a non-negative integer (0 for 0) *)
Fixpoint ndigits_fuel (fuel : nat) (z : Z) : Z :=
  match fuel with
  | O => 0
  | S f => if z <=? 0 then 0 else 1 + ndigits_fuel f (z / 10)
  end.
Definition ndigits (z : Z) : Z := ndigits_fuel 400 z.

(* places the statement allows: precision, capped to 16 significant digits *)
Definition places (prec : Z) (int_part : Z) : Z :=
  Z.max 0 (Z.min prec (16 - ndigits int_part)).

(* |v - x| <= 1/2 * 10^-d : v is x rounded to d places (any tie rule) *)
Definition rounded_to (d : Z) (x v : Q) : bool :=
  Qle_bool (Qabs (v - x) * (2 # 1) * inject_Z (10 ^ d)) 1.

Definition is_pow10 (z : Z) : bool :=
  (0 <? z) && (10 ^ (ndigits z - 1) =? z).
