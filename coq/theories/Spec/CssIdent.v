(* CSS identifiers on UTF-8 bytes, written from CSS Syntax Level 3, section 4.3.11
   ("check if three code points would start an ident sequence") and the <ident-token>
   railroad diagram; escapes are deliberately NOT accepted here (a stricter reading:
   nothing that needs an escape counts as a plain identifier).
     ident-start code point : a letter, a non-ASCII code point, or U+005F (_)
     ident code point       : an ident-start code point, a digit, or U+002D (-)
     <ident-token>          : ( "--" | "-"? ident-start ) ident*                       *)
From Coq Require Import List NArith Bool.
Import ListNotations.
Local Open Scope N_scope.

Definition is_letter (c : N) : bool := ((65 <=? c) && (c <=? 90)) || ((97 <=? c) && (c <=? 122)).
Definition is_digit (c : N) : bool := (48 <=? c) && (c <=? 57).
Definition is_ident_start (c : N) : bool := is_letter c || (128 <=? c) || (c =? 95).
Definition is_ident_char (c : N) : bool := is_ident_start c || is_digit c || (c =? 45).

Definition is_css_ident (l : list N) : bool :=
  match l with
  | [] => false
  | c :: r =>
      if is_ident_start c then forallb is_ident_char r
      else if c =? 45 then
        match r with
        | d :: r' => (is_ident_start d || (d =? 45)) && forallb is_ident_char r'
        | [] => false
        end
      else false
  end.
