(* Reference semantics of nested style rules and the parent selector `&`, written from the Sass
   documentation (style-rules#nesting, style-rules/parent-selector), NOT from rsass:
   - an inner complex selector without `&` is combined with every outer complex selector as a
     descendant, `outer inner`; a leading combinator takes the place of the space, `outer > inner`;
   - a compound `&suffix-and-simple-selectors` stands for the last compound of the outer selector
     with the type-selector suffix glued to its last simple selector and the other simple
     selectors added after it, preceded by the rest of the outer selector; gluing a suffix to an
     attribute selector, a pseudo with arguments or `*` is an error;
   - `&` inside a selector pseudo (`:not(&)`) stands for the whole outer selector list;
   - an inner selector that contains `&` gets no implicit outer prefix;
   - the result lists, for every outer selector in order, every inner selector in order.
   Repeated class / placeholder names in one compound are written once (same meaning).
   Nothing is said (SpNA) about inner selectors with more than one top-level `&`, a universal
   suffix, or names outside plain ASCII identifiers.
   The class number names what the input exercises: 1 suffix on a non-name (the documented
   error), 2 :host() outer gaining simple selectors, 3 pseudo-element in the outer compound
   followed by more simple selectors, 4 two different ids. *)
From Coq Require Import List NArith Bool.
From RV Require Import Base.Text Model.Sel Model.SelAlg Model.SelNest Spec.SelVisible.
Import ListNotations.
Import String.StringSyntax.
Local Open Scope string_scope.
Local Open Scope list_scope.

Inductive sp (A : Type) : Type := SpOk (a : A) (cls : N) | SpErr (cls : N) | SpNA.
Arguments SpOk {A} a cls.
Arguments SpErr {A} cls.
Arguments SpNA {A}.

Definition first_cls (a b : N) : N := if N.eqb a 0 then b else a.

Definition sp_bind {A B} (r : sp A) (f : A -> sp B) : sp B :=
  match r with
  | SpOk a k => match f a with SpOk b k' => SpOk b (first_cls k k') | SpErr k' => SpErr (first_cls k k') | SpNA => SpNA end
  | SpErr k => SpErr k
  | SpNA => SpNA
  end.

Fixpoint sp_all {A} (l : list (sp A)) : sp (list A) :=
  match l with
  | [] => SpOk [] 0%N
  | r :: rest => sp_bind r (fun a => sp_bind (sp_all rest) (fun l' => SpOk (a :: l') 0%N))
  end.

(* `outer inner` *)
Fixpoint spec_attach (o i : sel) : sel :=
  match i with
  | Sel None c => Sel (Some (Ancestor, o)) c
  | Sel (Some (k, r)) c =>
      match r with
      | Sel None rc => if comp_is_empty rc then Sel (Some (k, o)) c else Sel (Some (k, spec_attach o r)) c
      | _ => Sel (Some (k, spec_attach o r)) c
      end
  end.

Definition is_root_sel (o : sel) : bool := is_none (s_rel o) && is_local_empty o.

(* the last simple selector in writing order (type, placeholders, id, classes, attributes, pseudos)
   takes the suffix *)
Definition spec_glue (c : compound) (suf : text) : sp compound :=
  match c with
  | Comp b ps =>
      if negb (plain_name suf) then SpNA
      else match rev ps with
      | Pseudo n e ArgNone :: _ => SpOk (Comp b (set_last ps (fun p => Pseudo (p_name p ++ suf) (p_el p) (p_arg p)))) 0%N
      | Pseudo _ _ _ :: _ => SpErr 1%N
      | [] =>
          match rev (b_attrs b) with
          | _ :: _ => SpErr 1%N
          | [] =>
              match rev (b_classes b) with
              | _ :: _ => SpOk (Comp (mkBase false (b_elem b) (b_phs b) (set_last (b_classes b) (fun x => x ++ suf)) (b_id b) []) []) 0%N
              | [] =>
                  match b_id b with
                  | Some i => SpOk (Comp (mkBase false (b_elem b) (b_phs b) [] (Some (i ++ suf)) []) []) 0%N
                  | None =>
                      match rev (b_phs b) with
                      | _ :: _ => SpOk (Comp (mkBase false (b_elem b) (set_last (b_phs b) (fun x => x ++ suf)) [] None []) []) 0%N
                      | [] =>
                          match b_elem b with
                          | Some e => if elem_is_any e then SpErr 1%N
                                      else if plain_name e then SpOk (Comp (mkBase false (Some (e ++ suf)) [] [] None []) []) 0%N
                                      else SpNA
                          | None => SpOk (Comp (mkBase false (Some suf) [] [] None []) []) 0%N
                          end
                      end
                  end
              end
          end
      end
  end.

Definition merged_class (c : compound) : N :=
  match c with
  | Comp b ps =>
      if existsb p_is_host ps && (existsb p_is_hover ps || negb (is_none (b_elem b)) || negb (is_nil (b_classes b)))
      then 2%N
      else match find p_is_element ps with
           | Some pe => if leqb pseudo_eqb (filter (fun p => negb (p_is_element p)) ps ++ [pe]) ps then 0%N else 3%N
           | None => 0%N
           end
  end.

(* outer compound `co` with the `&`-compound `c` (suffix = its type selector) *)
Definition spec_merge (co c : compound) : sp compound :=
  match c with
  | Comp bc psc =>
      sp_bind (match b_elem bc with
               | None => SpOk co 0%N
               | Some suf => if elem_is_any suf then SpNA else spec_glue co suf
               end)
        (fun c1 =>
           match c1 with
           | Comp b1 ps1 =>
               let idk := match b_id b1, b_id bc with
                          | Some i, Some j => if text_eqb i j then (Some i, 0%N) else (Some (i ++ [35%N] ++ j), 4%N)
                          | Some i, None => (Some i, 0%N)
                          | None, o => (o, 0%N)
                          end in
               let m := Comp (mkBase false (b_elem b1) (dedup_text (b_phs b1 ++ b_phs bc) [])
                                     (dedup_text (b_classes b1 ++ b_classes bc) []) (fst idk) (b_attrs b1 ++ b_attrs bc))
                             (ps1 ++ psc) in
               SpOk m (first_cls (snd idk) (merged_class m))
           end)
  end.

Fixpoint top_refs (s : sel) : nat :=
  match s with
  | Sel rel c => (if b_backref (c_base c) then 1 else 0) + match rel with Some (_, r) => top_refs r | None => 0 end
  end.

Section Spec.
  Variable outers : sels.

  Fixpoint sp_sel (i : sel) : sp (list sel) :=
    match i with
    | Sel rel c =>
        sp_bind (sp_comp c) (fun c' =>
        sp_bind
          (match c' with
           | Comp b ps =>
               if b_backref b then
                 sp_all (map (fun o => sp_bind (spec_merge (s_comp o) c') (fun m => SpOk (Sel (s_rel o) m) 0%N)) outers)
               else SpOk [Sel None c'] 0%N
           end)
          (fun result =>
             match rel with
             | Some (k, r) =>
                 sp_bind (sp_sel r) (fun rels =>
                   SpOk (flat_map (fun rl => map (fun r0 => attach_root r0 (k, rl)) result) rels) 0%N)
             | None => SpOk result 0%N
             end))
    end
  with sp_comp (c : compound) : sp compound :=
    match c with
    | Comp b ps => sp_bind (sp_all (map sp_pseudo ps)) (fun ps' => SpOk (Comp b ps') 0%N)
    end
  with sp_pseudo (p : pseudo) : sp pseudo :=
    match p with
    | Pseudo n e (ArgSel l) =>
        sp_bind (sp_all (map (fun s => if Nat.ltb 1 (top_refs s) then SpNA else sp_sel s) l))
                (fun parts => SpOk (Pseudo n e (ArgSel (round_robin parts))) 0%N)
    | Pseudo _ _ _ => SpOk p 0%N
    end.

  (* one inner complex selector -> its resolved selectors, one per outer selector *)
  Definition sp_inner (i : sel) : sp (list sel) :=
    if hb_sel i then (if Nat.ltb 1 (top_refs i) then SpNA else sp_sel i)
    else if negb (plain_sel (match i with
                             | Sel (Some (k, Sel None rc)) c => if comp_is_empty rc then Sel None c else i
                             | _ => i
                             end)) then SpNA
    else SpOk (map (fun o => if is_root_sel o then i else spec_attach o i) outers) 0%N.
End Spec.

(* for every outer selector, every inner selector *)
Fixpoint transpose {A} (n : nat) (parts : list (list A)) : list A :=
  match n with
  | O => []
  | S n' => heads parts ++ transpose n' (tails parts)
  end.

Definition sp_rule (outers inners : sels) : sp sels :=
  sp_bind (sp_all (map (sp_inner outers) inners)) (fun parts => SpOk (transpose (length outers) parts) 0%N).

Fixpoint sp_levels (cur : sels) (levels : list sels) : sp sels :=
  match levels with
  | [] => SpOk cur 0%N
  | l :: rest => sp_bind (sp_rule cur l) (fun cur' => sp_levels cur' rest)
  end.

Inductive sres := SOk (s : sels) | SErr | SNA.

(* the emitted selectors: placeholders filtered as in Spec/SelVisible.v *)
(* nothing is said about a first level with an empty compound (`> a {`), nor about an inner selector
   that has both `&` and an empty compound (`> & b`) *)
Definition spec_domain (levels : list sels) : bool :=
  match levels with
  | [] => true
  | l1 :: rest =>
      plain_sels l1 && forallb (forallb (fun i => negb (hb_sel i) || plain_sel i)) rest
      && negb (existsb vanish_sels levels)          (* class K1 of C22 *)
  end.

Definition spec_levels (levels : list sels) : sres :=
  if negb (spec_domain levels) then SNA else
  match sp_levels [sel0] levels with
  | SpOk s _ => SOk (match spec_emitted s with Some v => v | None => [] end)
  | SpErr _ => SErr
  | SpNA => SNA
  end.

Definition spec_class (levels : list sels) : N :=
  if negb (spec_domain levels) then 0%N else
  match sp_levels [sel0] levels with
  | SpOk _ k => k
  | SpErr k => k
  | SpNA => 0%N
  end.
