(* Reference semantics of stylesheet loading for C02 / C03, written from the property texts
   (and the Sass module-system documentation), NOT from rsass.

   Files are identified by their canonical path.  A load resolves its url relative to the
   directory of the importing FILE (Spec/Resolve candidates).  Loading a file that is on the
   current load stack is a loop error, whatever the kind of the loads and however the urls are
   spelled.  A file reached by @use / @forward is executed once per compilation (first load);
   @import and meta.load-css execute the file every time.

   The load stack never holds a file twice, so the interpreter needs at most
   (number of files + 1) nested loads: with that fuel it never runs out. *)
From Coq Require Import String List Bool Arith Ascii NArith.
From RV Require Import Model.Load Model.LoadRun Spec.Resolve.
Import ListNotations.
Local Open Scope string_scope.

Section Ref.
Variable files : list string.           (* canonical names of the existing files *)
Variable content : string -> body.

Definition ref_has_ext (u : string) : bool := ends_with_s u ".scss" || ends_with_s u ".css".

(* the file a load denotes: the first existing documented candidate next to the importing file;
   failing that, the url unchanged in the base directory (the only load path of these worlds) *)
Definition ref_resolve_at (dir : string) (k : kind) (u : string) : option string :=
  (* `.`, `..` and empty segments of a url are resolved lexically, as for any url (RFC 3986 5.2.4) *)
  let url := normalize (dir ++ u) in
  if ref_has_ext url then fs_isfile files url
  else let (b, n) := split_dir url in
       first_some (fun c => fs_isfile files (spec_name b n c)) (spec_cands (is_import k)).

Definition ref_resolve (importer : string) (k : kind) (u : string) : option string :=
  let dir := fst (split_dir importer) in
  match ref_resolve_at dir k u with
  | Some f => Some f
  | None => if String.eqb dir "" then None else ref_resolve_at "" k u
  end.

(* a frame of the load stack: the file and the load (kind, url as spelled) that entered it *)
Definition frame : Type := (string * kind * string)%type.

Inductive rres : Type :=
| RefDone (cache : list string) (out : list N) (execs : list string)
| RefLoop (target_and_above : list frame) (closing : kind * string)
| RefNotFound
| RefFuel.

Fixpoint upto (id : string) (st : list frame) : list frame :=   (* frames from the top down to the one of `id` *)
  match st with
  | [] => []
  | (i, k, u) :: r => if String.eqb i id then [(i, k, u)] else (i, k, u) :: upto id r
  end.

Definition on_stack (id : string) (st : list frame) : bool := existsb (fun f => String.eqb (fst (fst f)) id) st.

Definition is_module (k : kind) : bool := match k with KUse | KForward => true | _ => false end.

Fixpoint ref_body (loadf : list frame -> string -> kind -> string -> list string -> list N -> list string -> rres)
         (st : list frame) (cur : string) (b : body) (cache : list string) (out : list N) (ex : list string) : rres :=
  match b with
  | [] => RefDone cache out ex
  | DEmit m :: r => ref_body loadf st cur r cache (m :: out) ex
  | DImportUrl _ :: r => ref_body loadf st cur r cache out ex          (* a plain css import *)
  | DLoad k u :: r =>
      match loadf st cur k u cache out ex with
      | RefDone c' o' e' => ref_body loadf st cur r c' o' e'
      | e => e
      end
  end.

Fixpoint ref_load (fuel : nat) (st : list frame) (cur : string) (k : kind) (u : string)
         (cache : list string) (out : list N) (ex : list string) : rres :=
  match fuel with
  | O => RefFuel
  | S f =>
      match ref_resolve cur k u with
      | None => if is_import k && spec_plain_import u false then RefDone cache out ex else RefNotFound
      | Some id =>
          if on_stack id st then RefLoop (upto id st) (k, u)
          else if is_module k && mem id cache then RefDone cache out ex
          else
            match ref_body (ref_load f) ((id, k, u) :: st) id (content id) cache out (id :: ex) with
            | RefDone c' o' e' => RefDone (if is_module k then id :: c' else c') o' e'
            | e => e
            end
      end
  end.

Definition ref_run (root : string) : rres :=
  ref_body (ref_load (S (List.length files))) [(root, KImport, root)] root (content root) [] [] [root].

End Ref.

(* ---- spellings ---- *)
Definition odd_segment (sg : string) : bool := String.eqb sg "" || String.eqb sg "." || String.eqb sg "..".
(* the url is not written in canonical form *)
Definition spelled (u : string) : bool := existsb odd_segment (segments u).
